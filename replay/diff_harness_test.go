// Differential replay harness of /verif (package rosmar, injected with `go test -overlay`; never part of the repository).
//
// It runs a fixed grid of concrete scenarios - every public key-value / xattr / sub-document entry point, over a set of
// prior document states (missing, live JSON, live binary with expiry, live with system+user xattrs, tombstone with and
// without xattrs, live counter) and argument variants (CAS matching / stale / zero, expiry none / offset / 30-day
// boundary / absolute, bodies present / absent, option flags) - against the tree it is compiled into, and writes what
// each scenario observably did (error class, results, the stored row, the row of the same key in a sibling collection,
// the feed events) as normalised JSON to $ROSVC_DIFF_OUT. `rosvc` runs it on the tree under check and on the last
// verified tree and compares: a scenario whose outcome differs is a concrete input on which the tree under check
// departs from the behaviour that was proved.
package rosmar

import (
	"context"
	"encoding/json"
	"errors"
	"fmt"
	"os"
	"sort"
	"strings"
	"sync"
	"testing"
	"time"

	sgbucket "github.com/couchbase/sg-bucket"
)

type rdOutcome struct {
	Scenario string   `json:"scenario"`
	Op       string   `json:"op"`
	Pre      string   `json:"pre"`
	Result   string   `json:"result"`
	Row      string   `json:"row"`
	Sibling  string   `json:"sibling"`
	Events   []string `json:"events"`
}

type rdPre struct {
	name      string
	present   bool
	body      []byte
	isJSON    int
	tombstone int
	exp       int64
	xattrs    []byte
	rev       int64
}

type rdCtx struct {
	t       *testing.T
	c, sib  *Collection
	start   int64
	mu      sync.Mutex
	casMu   sync.RWMutex
	events  map[string][]string
	preCas  map[string]uint64
	lastCas map[string]uint64
}

func rdErr(err error) string {
	if err == nil {
		return "ok"
	}
	var me sgbucket.MissingError
	var cm sgbucket.CasMismatchErr
	var xm sgbucket.XattrMissingError
	switch {
	case errors.As(err, &me):
		return "missing"
	case errors.As(err, &cm):
		return "casmismatch"
	case errors.As(err, &xm):
		return "xattrmissing"
	case errors.Is(err, sgbucket.ErrKeyExists):
		return "keyexists"
	case errors.Is(err, sgbucket.ErrPathExists):
		return "pathexists"
	case errors.Is(err, sgbucket.ErrPathNotFound):
		return "pathnotfound"
	case errors.Is(err, sgbucket.ErrPathMismatch):
		return "pathmismatch"
	}
	return "error"
}

func (x *rdCtx) cas(key string, v uint64) string {
	x.casMu.RLock()
	pre := x.preCas[key]
	x.casMu.RUnlock()
	switch {
	case v == 0:
		return "0"
	case v == pre:
		return "pre"
	case v > pre && v > 1<<40 && v < 1<<62:
		return "new"
	}
	return fmt.Sprintf("%d", v)
}

func (x *rdCtx) exp(v int64) string {
	if v == 0 {
		return "0"
	}
	d := v - x.start
	if d > -30 && d < 40*24*3600 {
		return fmt.Sprintf("now+%d", (d+2)/5*5)
	}
	return fmt.Sprintf("%d", v)
}

func (x *rdCtx) row(c *Collection, key string) string {
	var val, xattrs []byte
	var cas uint64
	var exp, tomb, rev int64
	var isJSON int
	row := c.bucket.sqliteDB.QueryRow(`SELECT value, cas, exp, xattrs, isJSON, tombstone, revSeqNo FROM documents WHERE collection=?1 AND key=?2`, c.id, key)
	if err := row.Scan(&val, &cas, &exp, &xattrs, &isJSON, &tomb, &rev); err != nil {
		return "absent"
	}
	v, xs := "NULL", "NULL"
	if val != nil {
		v = string(val)
	}
	if xattrs != nil {
		// a macro-expanded CAS inside an xattr is compared as "the row's CAS", not by value
		xs = strings.ReplaceAll(rdCanonJSON(xattrs), casAsString(cas), "<row.cas>")
	}
	return fmt.Sprintf("value=%s cas=%s exp=%s xattrs=%s isJSON=%d tombstone=%d rev=%d", v, x.cas(key, cas), x.exp(exp), xs, isJSON, tomb, rev)
}

func rdCanonJSON(b []byte) string {
	var v any
	if json.Unmarshal(b, &v) != nil {
		return string(b)
	}
	out, _ := json.Marshal(v)
	return string(out)
}

func (x *rdCtx) install(key string, p rdPre) {
	if !p.present {
		return
	}
	cas := uint64(hlc.Now())
	x.casMu.Lock()
	x.preCas[key] = cas
	x.casMu.Unlock()
	var exp int64
	switch {
	case p.exp > 0 && p.exp < 1000000:
		exp = x.start + p.exp
	default:
		exp = p.exp
	}
	_, err := x.c.bucket.sqliteDB.Exec(`INSERT INTO documents (collection,key,value,cas,exp,xattrs,isJSON,tombstone,revSeqNo) VALUES (?1,?2,?3,?4,?5,?6,?7,?8,?9)`,
		x.c.id, key, p.body, cas, exp, p.xattrs, p.isJSON, p.tombstone, p.rev)
	if err != nil {
		x.t.Fatalf("install %s: %v", key, err)
	}
}

func TestRosvcDifferentialScenarios(t *testing.T) {
	out := os.Getenv("ROSVC_DIFF_OUT")
	if out == "" {
		t.Skip("ROSVC_DIFF_OUT not set")
	}
	oldCB := LoggingCallback
	LoggingCallback = func(level LogLevel, f string, args ...any) {}
	defer func() { LoggingCallback = oldCB }()
	ctx := context.Background()
	b, err := OpenBucket(InMemoryURL, "rosvc_diff", CreateNew)
	if err != nil {
		t.Fatal(err)
	}
	defer func() { _ = b.CloseAndDelete(ctx) }()
	c := b.DefaultDataStore().(*Collection)
	sds, err := b.NamedDataStore(sgbucket.DataStoreNameImpl{Scope: "s1", Collection: "sibling"})
	if err != nil {
		t.Fatal(err)
	}
	x := &rdCtx{t: t, c: c, sib: sds.(*Collection), start: time.Now().Unix(), events: map[string][]string{}, preCas: map[string]uint64{}, lastCas: map[string]uint64{}}

	// a live feed on the collection records what each write announces
	feedDone := make(chan struct{})
	term := make(chan bool)
	err = c.StartDCPFeed(ctx, sgbucket.FeedArguments{ID: "rosvc", Backfill: sgbucket.FeedNoBackfill, Terminator: term, DoneChan: feedDone}, func(ev sgbucket.FeedEvent) bool {
		x.mu.Lock()
		defer x.mu.Unlock()
		key := string(ev.Key)
		val := "NULL"
		if ev.Value != nil {
			val = fmt.Sprintf("%dB", len(ev.Value))
		}
		x.events[key] = append(x.events[key], fmt.Sprintf("op=%d datatype=%d exp=%s rev=%d cas=%s value=%s", ev.Opcode, ev.DataType, x.exp(int64(ev.Expiry)), ev.RevNo, x.cas(key, ev.Cas), val))
		return true
	}, nil)
	if err != nil {
		t.Fatal(err)
	}

	sys := []byte(`{"_sync":{"a":1}}`)
	both := []byte(`{"_sync":{"a":1},"user":{"b":2}}`)
	pres := []rdPre{
		{name: "missing"},
		{name: "liveJSON", present: true, body: []byte(`{"a":1,"n":{"x":2}}`), isJSON: 1, rev: 3},
		{name: "liveBinaryExp", present: true, body: []byte("bin\x00ary"), isJSON: 0, exp: 600, rev: 1},
		{name: "liveXattrs", present: true, body: []byte(`{"a":1,"n":{"x":2}}`), isJSON: 1, xattrs: both, rev: 5},
		{name: "tombSys", present: true, tombstone: 1, xattrs: sys, rev: 4},
		{name: "tomb", present: true, tombstone: 1, rev: 2},
		{name: "counter", present: true, body: []byte(`7`), isJSON: 1, rev: 1},
	}

	type op struct {
		name string
		run  func(key string) string
	}
	casOf := func(kind, key string) uint64 {
		switch kind {
		case "match":
			x.casMu.RLock()
			defer x.casMu.RUnlock()
			return x.preCas[key]
		case "stale":
			x.casMu.RLock()
			defer x.casMu.RUnlock()
			return x.preCas[key] + 12345
		}
		return 0
	}
	var ops []op
	add := func(name string, f func(key string) string) { ops = append(ops, op{name, f}) }
	body := []byte(`{"new":true}`)

	add("GetRaw", func(k string) string { v, cas, e := c.GetRaw(k); return fmt.Sprintf("%s val=%q cas=%s", rdErr(e), v, x.cas(k, cas)) })
	add("Exists", func(k string) string { ok, e := c.Exists(k); return fmt.Sprintf("%s %v", rdErr(e), ok) })
	add("GetExpiry", func(k string) string { v, e := c.GetExpiry(ctx, k); return fmt.Sprintf("%s %s", rdErr(e), x.exp(int64(v))) })
	add("Get", func(k string) string { var v any; cas, e := c.Get(k, &v); return fmt.Sprintf("%s %v cas=%s", rdErr(e), v, x.cas(k, cas)) })
	for _, exp := range []uint32{0, 60, 2592000, 2000000000} {
		exp := exp
		add(fmt.Sprintf("AddRaw(exp=%d)", exp), func(k string) string { ok, e := c.AddRaw(k, exp, body); return fmt.Sprintf("%s %v", rdErr(e), ok) })
		add(fmt.Sprintf("SetRaw(exp=%d)", exp), func(k string) string { return rdErr(c.SetRaw(k, exp, nil, body)) })
	}
	add("Add(json)", func(k string) string { ok, e := c.Add(k, 0, map[string]any{"j": 1}); return fmt.Sprintf("%s %v", rdErr(e), ok) })
	add("Set(json)", func(k string) string { return rdErr(c.Set(k, 0, nil, map[string]any{"j": 1})) })
	add("SetRaw(preserveExpiry)", func(k string) string { return rdErr(c.SetRaw(k, 60, &sgbucket.UpsertOptions{PreserveExpiry: true}, body)) })
	for _, ck := range []string{"match", "stale", "zero"} {
		ck := ck
		add("Remove(cas="+ck+")", func(k string) string { cas, e := c.Remove(k, casOf(ck, k)); return fmt.Sprintf("%s cas=%s", rdErr(e), x.cas(k, cas)) })
		for _, o := range []struct {
			n string
			o sgbucket.WriteOptions
		}{{"0", 0}, {"AddOnly", sgbucket.AddOnly}, {"Raw", sgbucket.Raw}, {"Append", sgbucket.Append}} {
			o := o
			add(fmt.Sprintf("WriteCas(cas=%s,opt=%s,body)", ck, o.n), func(k string) string {
				var v any = body
				cas, e := c.WriteCas(k, 60, casOf(ck, k), v, o.o)
				return fmt.Sprintf("%s cas=%s", rdErr(e), x.cas(k, cas))
			})
		}
		add("WriteCas(cas="+ck+",nil)", func(k string) string {
			cas, e := c.WriteCas(k, 0, casOf(ck, k), nil, 0)
			return fmt.Sprintf("%s cas=%s", rdErr(e), x.cas(k, cas))
		})
		add("SetWithMeta(old="+ck+")", func(k string) string {
			return rdErr(c.SetWithMeta(ctx, k, casOf(ck, k), 1<<62, 60, []byte(`{"_sync":{"m":1}}`), body, sgbucket.FeedDataTypeJSON))
		})
		add("DeleteWithMeta(old="+ck+")", func(k string) string {
			return rdErr(c.DeleteWithMeta(ctx, k, casOf(ck, k), 1<<62, 0, []byte(`{"_sync":{"m":1}}`)))
		})
		add("WriteWithXattrs(cas="+ck+",body,set,delUser)", func(k string) string {
			cas, e := c.WriteWithXattrs(ctx, k, 0, casOf(ck, k), body, map[string][]byte{"_sync": []byte(`{"w":1}`)}, []string{"user"}, nil)
			return fmt.Sprintf("%s cas=%s", rdErr(e), x.cas(k, cas))
		})
		add("WriteWithXattrs(cas="+ck+",nobody,set,exp)", func(k string) string {
			cas, e := c.WriteWithXattrs(ctx, k, 60, casOf(ck, k), nil, map[string][]byte{"_sync": []byte(`{"w":1}`)}, nil, nil)
			return fmt.Sprintf("%s cas=%s", rdErr(e), x.cas(k, cas))
		})
		add("WriteWithXattrs(cas="+ck+",macros)", func(k string) string {
			opts := &sgbucket.MutateInOptions{MacroExpansion: []sgbucket.MacroExpansionSpec{{Path: "_sync.cas", Type: sgbucket.MacroCas}, {Path: "_sync.crc", Type: sgbucket.MacroCrc32c}}}
			cas, e := c.WriteWithXattrs(ctx, k, 0, casOf(ck, k), body, map[string][]byte{"_sync": []byte(`{"w":1}`), "_sync2": []byte(`{"z":1}`)}, nil, opts)
			return fmt.Sprintf("%s cas=%s", rdErr(e), x.cas(k, cas))
		})
		add("UpdateXattrs(cas="+ck+")", func(k string) string {
			cas, e := c.UpdateXattrs(ctx, k, 0, casOf(ck, k), map[string][]byte{"_sync": []byte(`{"u":1}`)}, nil)
			return fmt.Sprintf("%s cas=%s", rdErr(e), x.cas(k, cas))
		})
		add("RemoveXattrs(cas="+ck+")", func(k string) string { return rdErr(c.RemoveXattrs(ctx, k, []string{"user"}, casOf(ck, k))) })
		for _, del := range []bool{true, false} {
			del := del
			add(fmt.Sprintf("WriteTombstoneWithXattrs(cas=%s,deleteBody=%v)", ck, del), func(k string) string {
				cas, e := c.WriteTombstoneWithXattrs(ctx, k, 0, casOf(ck, k), map[string][]byte{"_sync": []byte(`{"t":1}`)}, nil, del, nil)
				return fmt.Sprintf("%s cas=%s", rdErr(e), x.cas(k, cas))
			})
		}
		add("UpdateXattrDeleteBody(cas="+ck+")", func(k string) string {
			cas, e := c.UpdateXattrDeleteBody(ctx, k, "_sync", 0, casOf(ck, k), map[string]any{"d": 1}, nil)
			return fmt.Sprintf("%s cas=%s", rdErr(e), x.cas(k, cas))
		})
		add("WriteSubDoc(cas="+ck+",a)", func(k string) string {
			cas, e := c.WriteSubDoc(ctx, k, "a", casOf(ck, k), []byte(`"v"`))
			return fmt.Sprintf("%s cas=%s", rdErr(e), x.cas(k, cas))
		})
		add("SubdocInsert(cas="+ck+",n.y)", func(k string) string { return rdErr(c.SubdocInsert(ctx, k, "n.y", casOf(ck, k), 5)) })
	}
	add("Delete", func(k string) string { return rdErr(c.Delete(k)) })
	for _, exp := range []uint32{0, 60, 2592000} {
		exp := exp
		add(fmt.Sprintf("Touch(exp=%d)", exp), func(k string) string { cas, e := c.Touch(k, exp); return fmt.Sprintf("%s cas=%s", rdErr(e), x.cas(k, cas)) })
	}
	add("GetAndTouchRaw(60)", func(k string) string {
		v, cas, e := c.GetAndTouchRaw(k, 60)
		return fmt.Sprintf("%s val=%q cas=%s", rdErr(e), v, x.cas(k, cas))
	})
	add("Incr(1,5)", func(k string) string { r, e := c.Incr(k, 1, 5, 60); return fmt.Sprintf("%s %d", rdErr(e), r) })
	newExp := uint32(2000000000)
	for _, cb := range []struct {
		n string
		f sgbucket.UpdateFunc
	}{
		{"body", func(cur []byte) ([]byte, *uint32, bool, error) { return body, nil, false, nil }},
		{"expOnly", func(cur []byte) ([]byte, *uint32, bool, error) { return nil, &newExp, false, nil }},
		{"delete", func(cur []byte) ([]byte, *uint32, bool, error) { return nil, nil, true, nil }},
		{"cancel", func(cur []byte) ([]byte, *uint32, bool, error) { return nil, nil, false, nil }},
	} {
		cb := cb
		add("Update("+cb.n+")", func(k string) string { cas, e := c.Update(k, 60, cb.f); return fmt.Sprintf("%s cas=%s", rdErr(e), x.cas(k, cas)) })
	}
	add("SetXattrs", func(k string) string {
		cas, e := c.SetXattrs(ctx, k, map[string][]byte{"_sync": []byte(`{"s":1}`), "user": []byte(`{"s":2}`)})
		return fmt.Sprintf("%s cas=%s", rdErr(e), x.cas(k, cas))
	})
	add("WriteResurrectionWithXattrs", func(k string) string {
		cas, e := c.WriteResurrectionWithXattrs(ctx, k, 60, body, map[string][]byte{"_sync": []byte(`{"r":1}`)}, nil)
		return fmt.Sprintf("%s cas=%s", rdErr(e), x.cas(k, cas))
	})
	add("DeleteWithXattrs", func(k string) string { return rdErr(c.DeleteWithXattrs(ctx, k, []string{"_sync", "user"})) })
	add("DeleteSubDocPaths(user)", func(k string) string { return rdErr(c.DeleteSubDocPaths(ctx, k, "user")) })
	add("GetWithXattrs", func(k string) string {
		v, xs, cas, e := c.GetWithXattrs(ctx, k, []string{"_sync", "user", "$document", "$document.revid"})
		keys := make([]string, 0, len(xs))
		for kk, vv := range xs {
			if kk == "$document" {
				vv = []byte("…")
			}
			keys = append(keys, kk+"="+string(vv))
		}
		sort.Strings(keys)
		return fmt.Sprintf("%s val=%q xattrs=%v cas=%s", rdErr(e), v, keys, x.cas(k, cas))
	})
	add("GetXattrs", func(k string) string {
		xs, cas, e := c.GetXattrs(ctx, k, []string{"_sync", "user"})
		keys := make([]string, 0, len(xs))
		for kk, vv := range xs {
			keys = append(keys, kk+"="+string(vv))
		}
		sort.Strings(keys)
		return fmt.Sprintf("%s xattrs=%v cas=%s", rdErr(e), keys, x.cas(k, cas))
	})
	add("GetSubDocRaw(n.x)", func(k string) string { v, cas, e := c.GetSubDocRaw(ctx, k, "n.x"); return fmt.Sprintf("%s %s cas=%s", rdErr(e), v, x.cas(k, cas)) })
	add("WriteSubDoc(remove a)", func(k string) string { cas, e := c.WriteSubDoc(ctx, k, "a", 0, nil); return fmt.Sprintf("%s cas=%s", rdErr(e), x.cas(k, cas)) })
	for _, cb := range []struct {
		n string
		f sgbucket.WriteUpdateWithXattrsFunc
	}{
		{"body+xattr", func(doc []byte, xs map[string][]byte, cas uint64) (sgbucket.UpdatedDoc, error) {
			return sgbucket.UpdatedDoc{Doc: body, Xattrs: map[string][]byte{"_sync": []byte(`{"wu":1}`)}}, nil
		}},
		{"tombstone", func(doc []byte, xs map[string][]byte, cas uint64) (sgbucket.UpdatedDoc, error) {
			return sgbucket.UpdatedDoc{IsTombstone: true, Xattrs: map[string][]byte{"_sync": []byte(`{"wu":2}`)}}, nil
		}},
		{"expiry", func(doc []byte, xs map[string][]byte, cas uint64) (sgbucket.UpdatedDoc, error) {
			return sgbucket.UpdatedDoc{Doc: body, Xattrs: map[string][]byte{"_sync": []byte(`{"wu":3}`)}, Expiry: &newExp}, nil
		}},
	} {
		cb := cb
		add("WriteUpdateWithXattrs("+cb.n+")", func(k string) string {
			cas, e := c.WriteUpdateWithXattrs(ctx, k, []string{"_sync", "user"}, 60, nil, nil, cb.f)
			return fmt.Sprintf("%s cas=%s", rdErr(e), x.cas(k, cas))
		})
		add("WriteUpdateWithXattrs("+cb.n+",preserveExpiry)", func(k string) string {
			cas, e := c.WriteUpdateWithXattrs(ctx, k, []string{"_sync", "user"}, 60, nil, &sgbucket.MutateInOptions{PreserveExpiry: true}, cb.f)
			return fmt.Sprintf("%s cas=%s", rdErr(e), x.cas(k, cas))
		})
	}

	var outcomes []*rdOutcome
	n := 0
	wedged := false
	for _, p := range pres {
		for _, o := range ops {
			n++
			key := fmt.Sprintf("k%04d", n)
			oc := &rdOutcome{Scenario: p.name + " / " + o.name, Op: o.name, Pre: p.name}
			outcomes = append(outcomes, oc)
			if wedged {
				oc.Result = "not run (the bucket is wedged by an earlier scenario)"
				continue
			}
			x.install(key, p)
			// the same key in a sibling collection must never be touched
			_, _ = x.sib.bucket.sqliteDB.Exec(`INSERT INTO documents (collection,key,value,cas,exp,xattrs,isJSON,tombstone,revSeqNo) VALUES (?1,?2,?3,?4,0,NULL,1,0,1)`, x.sib.id, key, []byte(`{"sib":1}`), 77)
			done := make(chan string, 1)
			go func() {
				defer func() {
					if r := recover(); r != nil {
						done <- fmt.Sprintf("PANIC %v", r)
					}
				}()
				done <- o.run(key)
			}()
			select {
			case r := <-done:
				oc.Result = r
				if strings.HasPrefix(r, "PANIC") {
					wedged = true
				}
			case <-time.After(5 * time.Second):
				oc.Result = "HANG"
				wedged = true
			}
			if !wedged {
				oc.Row = x.row(c, key)
				oc.Sibling = x.row(x.sib, key)
			}
		}
	}
	// let the feed drain, then attribute the events to their scenarios
	time.Sleep(300 * time.Millisecond)
	close(term)
	select {
	case <-feedDone:
	case <-time.After(3 * time.Second):
	}
	x.mu.Lock()
	for i, oc := range outcomes {
		oc.Events = x.events[fmt.Sprintf("k%04d", i+1)]
	}
	x.mu.Unlock()
	data, _ := json.MarshalIndent(outcomes, "", " ")
	if err := os.WriteFile(out, data, 0644); err != nil {
		t.Fatal(err)
	}
}
