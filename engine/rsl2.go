package main

import (
	"fmt"
	"go/types"
	"strings"
)

func (env *rEnv) typeOf(n *rNode) types.Type {
	switch n.Op {
	case "id":
		if t, ok := env.typs[n.Text]; ok {
			return t
		}
		if g, ok := env.e.pkg.Members[n.Text].(*ssaGlobal); ok {
			return g.Type().(*types.Pointer).Elem()
		}
	case "field":
		bt := env.typeOf(n.Args[0])
		if bt == nil {
			return nil
		}
		if p, ok := bt.Underlying().(*types.Pointer); ok {
			bt = p.Elem()
		}
		if s, ok := bt.Underlying().(*types.Struct); ok {
			for i := 0; i < s.NumFields(); i++ {
				if s.Field(i).Name() == n.Text {
					return s.Field(i).Type()
				}
			}
		}
	case "index":
		if bt := env.typeOf(n.Args[0]); bt != nil {
			if m, ok := bt.Underlying().(*types.Map); ok {
				return m.Elem()
			}
			if sl, ok := bt.Underlying().(*types.Slice); ok {
				return sl.Elem()
			}
		}
	case "unary":
		if n.Text == "*" {
			if bt := env.typeOf(n.Args[0]); bt != nil {
				if p, ok := bt.Underlying().(*types.Pointer); ok {
					return p.Elem()
				}
			}
		}
	case "call":
		if (n.Text == "old" || n.Text == "athead" || n.Text == "atentry") && len(n.Args) == 1 {
			return env.typeOf(n.Args[0])
		}
		if n.Text == "delivered" {
			return env.e.feedEventNamed()
		}
		if n.Text == "callrecv" && len(n.Args) == 1 && n.Args[0].Op == "str" {
			if fn := env.e.findByShort(n.Args[0].Text); fn != nil && len(fn.Params) > 0 {
				if pt, ok := fn.Params[0].Type().Underlying().(*types.Pointer); ok {
					return pt.Elem()
				}
			}
		}
		if n.Text == "lastfound" {
			for i := len(env.post.trace) - 1; i >= 0; i-- {
				if ev := env.post.trace[i]; ev.Kind == "maplookup.present" && ev.Typ != nil {
					return ev.Typ
				}
			}
		}
		if n.Text == "cbret" && len(n.Args) == 1 {
			if idx, ok := constIndex(env.eval(n.Args[0])); ok {
				for i := len(env.post.trace) - 1; i >= 0; i-- {
					if ev := env.post.trace[i]; ev.Kind == "callback" && ev.Typ != nil {
						if tt, ok := ev.Typ.(*types.Tuple); ok && idx < tt.Len() {
							return tt.At(idx).Type()
						}
						if idx == 0 {
							return ev.Typ
						}
					}
				}
			}
		}
		if n.Text == "callretval" && len(n.Args) == 2 && n.Args[0].Op == "str" {
			if idx, ok := constIndex(env.eval(n.Args[1])); ok {
				if fn := env.e.findByShort(n.Args[0].Text); fn != nil && idx < fn.Signature.Results().Len() {
					if pt, ok := fn.Signature.Results().At(idx).Type().Underlying().(*types.Pointer); ok {
						return pt.Elem()
					}
				}
			}
		}
		if n.Text == "callret" && len(n.Args) == 2 && n.Args[0].Op == "str" {
			if idx, ok := constIndex(env.eval(n.Args[1])); ok {
				if fn := env.e.findByShort(n.Args[0].Text); fn != nil && idx < fn.Signature.Results().Len() {
					return fn.Signature.Results().At(idx).Type()
				}
			}
		}
		if n.Text == "callargN" && len(n.Args) == 3 && n.Args[0].Op == "str" {
			if idx, ok := constIndex(env.eval(n.Args[2])); ok {
				// the dynamic type of the recorded argument when it is known (generic callees), else the parameter's
				if k, ok := constIndex(env.eval(n.Args[1])); ok {
					c := 0
					for _, ev := range env.post.trace {
						if ev.Kind == "call:"+n.Args[0].Text {
							if c == k && idx < len(ev.Args) {
								if iv, ok := ev.Args[idx].(VIface); ok && iv.Typ != nil {
									return iv.Typ
								}
							}
							c++
						}
					}
				}
				if fn := env.e.findByShort(n.Args[0].Text); fn != nil && idx < len(fn.Params) {
					return fn.Params[idx].Type()
				}
			}
		}
		if n.Text == "spawnarg" && len(n.Args) == 1 {
			if idx, ok := constIndex(env.eval(n.Args[0])); ok {
				for i := len(env.post.trace) - 1; i >= 0; i-- {
					if ev := env.post.trace[i]; ev.Kind == "spawn" {
						if fv, ok := ev.Extra.(VFunc); ok && fv.Fn != nil && idx < len(fv.Fn.Params) {
							return fv.Fn.Params[idx].Type()
						}
					}
				}
			}
		}
		if n.Text == "callarg" && len(n.Args) == 2 && n.Args[0].Op == "str" {
			if idx, ok := constIndex(env.eval(n.Args[1])); ok {
				if fn := env.e.findByShort(n.Args[0].Text); fn != nil && idx < len(fn.Params) {
					return fn.Params[idx].Type()
				}
			}
		}
	}
	return nil
}

func (env *rEnv) fieldIndex(baseNode *rNode, f string, _ VPtr) (int, bool) {
	return env.fieldIndexOfType(env.typeOf(baseNode), f)
}

func (env *rEnv) fieldIndexOfType(t types.Type, f string) (int, bool) {
	if t == nil {
		return 0, false
	}
	if p, ok := t.Underlying().(*types.Pointer); ok {
		t = p.Elem()
	}
	s, ok := t.Underlying().(*types.Struct)
	if !ok {
		return 0, false
	}
	for i := 0; i < s.NumFields(); i++ {
		if s.Field(i).Name() == f {
			return i, true
		}
	}
	return 0, false
}

func errShape(v Value) (types.Type, Value, bool) {
	iv, ok := v.(VIface)
	if !ok {
		return nil, nil, false
	}
	return iv.Typ, iv.V, true
}

// opaqueErrID: identity of an error returned by a modular call (its class is symbolic).
func opaqueErrID(v Value) (int, bool) {
	if iv, ok := v.(VIface); ok {
		if a, ok := iv.V.(VAbs); ok && a.Kind == "sentinel" {
			if s, _ := a.Data.(string); strings.HasPrefix(s, "opaque error") {
				return a.ID, true
			}
		}
	}
	return 0, false
}

func (env *rEnv) errIs(v Value, pkg, name string) Term {
	if id, ok := opaqueErrID(v); ok {
		return env.post.declare(fmt.Sprintf("err.%d.is.%s", id, name), SBool)
	}
	t, _, ok := errShape(v)
	if !ok {
		return TFalse
	}
	return BoolLit(t != nil && typeIsPkg(t, pkg, name))
}

func (env *rEnv) errIsSentinel(v Value, name string) Term {
	if id, ok := opaqueErrID(v); ok {
		return env.post.declare(fmt.Sprintf("err.%d.is.%s", id, sanitize(name)), SBool)
	}
	iv, ok := v.(VIface)
	if !ok {
		return TFalse
	}
	chain, _ := env.e.unwrapChain(env.post, iv)
	for _, c := range chain {
		if a, ok := c.V.(VAbs); ok && a.Kind == "sentinel" {
			if s, _ := a.Data.(string); strings.HasSuffix(s, name) {
				return TTrue
			}
		}
	}
	return TFalse
}

const sgb = "github.com/couchbase/sg-bucket"
const rosmarPkg = "github.com/couchbaselabs/rosmar"

func (env *rEnv) call(n *rNode) Value {
	e := env.e
	argT := func(i int) Term { return env.term(n.Args[i]) }
	switch n.Text {
	case "old":
		saved := env.useOld
		env.useOld = true
		v := env.eval(n.Args[0])
		env.useOld = saved
		return v
	case "atentry":
		if env.entry == nil {
			return env.fail("atentry() outside a loop clause")
		}
		savedE := env.useEntry
		env.useEntry = true
		ve := env.eval(n.Args[0])
		env.useEntry = savedE
		return ve
	case "athead":
		if env.head == nil {
			return env.fail("athead() outside a loop body clause")
		}
		saved := env.useHead
		env.useHead = true
		v := env.eval(n.Args[0])
		env.useHead = saved
		return v
	case "pushes":
		var items []Value
		for _, ev := range env.post.trace {
			if ev.Kind == "list.pushfront" {
				items = append(items, sym(ev.Terms["ev"]))
			}
		}
		return rList{items, "feedev"}
	case "pushpos", "callpos":
		// position in the ghost trace of the i-th push / of the first modular call to a function (-1 if none)
		want := -1
		kind := "list.pushfront"
		if n.Text == "callpos" {
			if n.Args[0].Op != "str" {
				return env.fail("callpos needs a function name")
			}
			kind = "call:" + n.Args[0].Text
			want = 0
		} else if idx, ok := constIndex(env.eval(n.Args[0])); ok {
			want = idx
		}
		seen := 0
		for i, ev := range env.post.trace {
			if ev.Kind == kind {
				if seen == want {
					return sym(IntLit(int64(i)))
				}
				seen++
			}
		}
		return sym(IntLit(-1))
	case "renders":
		// renders(bytes, names, vals): the pieces written to produce `bytes` are exactly
		//   '{' name_i ':' val_i  (joined by ',')  '}'   over the columns whose Valid flag holds on this path, in order.
		// names: concrete slice of []byte, vals: concrete slice of sql.NullString (bounded: concrete length).
		bt := argT(0)
		var pieces []Term
		found := false
		for _, br := range env.post.bufResults {
			if br.T.S == bt.S {
				pieces, found = br.Pieces, true
			}
		}
		if !found {
			return env.fail("renders: value was not produced by a modelled buffer")
		}
		names := e.sliceElems(env.post, env.eval(n.Args[1]))
		vals := e.sliceElems(env.post, env.eval(n.Args[2]))
		if len(names) != len(vals) {
			return env.fail("renders: names/values of different length")
		}
		nst := e.nullStringType()
		var want []Term
		want = append(want, byteLit(e, '{'))
		e.byteLits['{'], e.byteLits['}'], e.byteLits[','], e.byteLits[':'] = true, true, true, true
		first := true
		for i, v := range vals {
			sv, ok := v.(VStruct)
			if !ok || nst == nil {
				return env.fail("renders: value %d is not a NullString", i)
			}
			var valid, str Term
			for fi := 0; fi < nst.NumFields(); fi++ {
				if fs, ok := sv.F[fi].(VSym); ok {
					if nst.Field(fi).Name() == "Valid" {
						valid = fs.T
					} else if nst.Field(fi).Name() == "String" {
						str = fs.T
					}
				}
			}
			kn := 0
			if valid.IsTrue() {
				kn = 1
			} else if valid.IsFalse() {
				kn = -1
			} else {
				kn = env.post.known(valid)
			}
			if kn == 0 {
				return env.fail("renders: validity of column %d is not decided on this path", i)
			}
			if kn < 0 {
				continue
			}
			if !first {
				want = append(want, byteLit(e, ','))
			}
			first = false
			nm, ok := names[i].(VSym)
			if !ok {
				return env.fail("renders: name %d", i)
			}
			want = append(want, nm.T, byteLit(e, ':'), App(SBytes, "b.ofstr", str))
		}
		want = append(want, byteLit(e, '}'))
		if len(want) != len(pieces) {
			return sym(TFalse)
		}
		res := TTrue
		for i := range want {
			res = And(res, Eq(want[i], pieces[i]))
		}
		return sym(res)
	case "updkey", "updval":
		// key / value of the most recent update of a scalar map on this path
		for i := len(env.post.trace) - 1; i >= 0; i-- {
			if ev := env.post.trace[i]; ev.Kind == "mapupdate" && ev.Terms != nil {
				if n.Text == "updkey" {
					return sym(ev.Terms["k"])
				}
				return sym(ev.Terms["v"])
			}
		}
		return env.fail("no map update on this path")
	case "sprintfd":
		// sprintfd("fmt with one %d", n): the string fmt.Sprintf produces (same encoding the executor uses)
		if n.Args[0].Op == "str" {
			t := argT(1)
			format := n.Args[0].Text
			var rep string
			if c, ok := t.intConst(); ok {
				rep = c.String()
			} else {
				rep = e.hole(t)
			}
			return sym(e.strLit(strings.Replace(format, "%d", rep, 1)))
		}
	case "callrecv":
		// callrecv("Short"): the receiver struct as it was when the last modular call to that function was made
		if n.Args[0].Op == "str" {
			for i := len(env.post.trace) - 1; i >= 0; i-- {
				if env.post.trace[i].Kind == "call:"+n.Args[0].Text {
					if sv, ok := env.post.trace[i].Extra.(VStruct); ok {
						return sv
					}
				}
			}
			return env.fail("no call to %s on this path", n.Args[0].Text)
		}
	case "callretval":
		// callretval("Short", i): the struct the i-th (pointer) result pointed to when the call returned
		if n.Args[0].Op == "str" {
			if idx, ok := constIndex(env.eval(n.Args[1])); ok {
				for i := len(env.post.trace) - 1; i >= 0; i-- {
					if env.post.trace[i].Kind == "ret:"+n.Args[0].Text {
						if snaps, ok := env.post.trace[i].Extra.([]Value); ok && idx < len(snaps) && snaps[idx] != nil {
							return snaps[idx]
						}
					}
				}
			}
			return env.fail("no struct result of %s on this path", n.Args[0].Text)
		}
	case "callret":
		// callret("Short", i): i-th result of the last modular call to that function
		if n.Args[0].Op == "str" {
			if idx, ok := constIndex(env.eval(n.Args[1])); ok {
				for i := len(env.post.trace) - 1; i >= 0; i-- {
					if env.post.trace[i].Kind == "ret:"+n.Args[0].Text && idx < len(env.post.trace[i].Args) {
						return env.post.trace[i].Args[idx]
					}
				}
			}
			return env.fail("no call to %s on this path", n.Args[0].Text)
		}
	case "callarg":
		// callarg("Short", i): i-th argument (receiver = 0) of the last modular call to that function
		if n.Args[0].Op == "str" {
			if idx, ok := constIndex(env.eval(n.Args[1])); ok {
				for i := len(env.post.trace) - 1; i >= 0; i-- {
					if env.post.trace[i].Kind == "call:"+n.Args[0].Text && idx < len(env.post.trace[i].Args) {
						return env.post.trace[i].Args[idx]
					}
				}
			}
			return env.fail("no call to %s on this path", n.Args[0].Text)
		}
	case "callargN":
		// callargN("Short", k, i): i-th argument (receiver = 0) of the k-th (0-based) modular call to that function
		if n.Args[0].Op == "str" && len(n.Args) == 3 {
			k, ok1 := constIndex(env.eval(n.Args[1]))
			idx, ok2 := constIndex(env.eval(n.Args[2]))
			if ok1 && ok2 {
				c := 0
				for _, ev := range env.post.trace {
					if ev.Kind == "call:"+n.Args[0].Text {
						if c == k && idx < len(ev.Args) {
							return ev.Args[idx]
						}
						c++
					}
				}
			}
			return env.fail("no such call to %s on this path", n.Args[0].Text)
		}
	case "callretN":
		// callretN("Short", k, i): i-th result of the k-th (0-based) modular call to that function
		if n.Args[0].Op == "str" && len(n.Args) == 3 {
			k, ok1 := constIndex(env.eval(n.Args[1]))
			idx, ok2 := constIndex(env.eval(n.Args[2]))
			if ok1 && ok2 {
				c := 0
				for _, ev := range env.post.trace {
					if ev.Kind == "ret:"+n.Args[0].Text {
						if c == k && idx < len(ev.Args) {
							return ev.Args[idx]
						}
						c++
					}
				}
			}
			return env.fail("no such call to %s on this path", n.Args[0].Text)
		}
	case "spawnarg":
		// spawnarg(i): the i-th argument (receiver = 0) of the last `go` statement on this path
		if idx, ok := constIndex(env.eval(n.Args[0])); ok {
			for i := len(env.post.trace) - 1; i >= 0; i-- {
				if ev := env.post.trace[i]; ev.Kind == "spawn" && idx < len(ev.Args) {
					return ev.Args[idx]
				}
			}
		}
		return env.fail("no go statement on this path")
	case "calltargetnil":
		// calltargetnil("Short", i): what the i-th (pointer) argument of the last modular call to Short pointed to was nil
		// (a nil map/slice/pointer) when the call was made
		if n.Args[0].Op == "str" {
			if idx, ok := constIndex(env.eval(n.Args[1])); ok {
				for i := len(env.post.trace) - 1; i >= 0; i-- {
					if ev := env.post.trace[i]; ev.Kind == "call:"+n.Args[0].Text {
						if t, ok := ev.Terms[fmt.Sprintf("targetnil%d", idx)]; ok {
							return sym(t)
						}
						return env.fail("argument %d of %s is not a pointer", idx, n.Args[0].Text)
					}
				}
			}
			return env.fail("no call to %s on this path", n.Args[0].Text)
		}
	case "callunlocked":
		// callunlocked("Short"): no lock was held at any modular call to Short on this path
		if n.Args[0].Op == "str" {
			for _, ev := range env.post.trace {
				if ev.Kind == "call:"+n.Args[0].Text && len(ev.Locks) > 0 {
					return sym(TFalse)
				}
			}
			return sym(TTrue)
		}
	case "callbackarg":
		// callbackarg(i): i-th argument of the most recent client callback invocation
		if idx, ok := constIndex(env.eval(n.Args[0])); ok {
			for i := len(env.post.trace) - 1; i >= 0; i-- {
				if ev := env.post.trace[i]; ev.Kind == "callback" && idx < len(ev.Args) {
					return ev.Args[idx]
				}
			}
		}
		return env.fail("no callback argument on this path")
	case "cbret":
		// cbret(i): i-th result of the most recent client callback invocation
		if idx, ok := constIndex(env.eval(n.Args[0])); ok {
			for i := len(env.post.trace) - 1; i >= 0; i-- {
				if env.post.trace[i].Kind == "callback" {
					switch r := env.post.trace[i].Extra.(type) {
					case VTuple:
						if idx < len(r.E) {
							return r.E[idx]
						}
					case Value:
						if idx == 0 && r != nil {
							return r
						}
					}
				}
			}
		}
		return env.fail("no callback result on this path")
	case "delivered":
		// the argument of the most recent client callback invocation on this path
		for i := len(env.post.trace) - 1; i >= 0; i-- {
			if env.post.trace[i].Kind == "callback" && len(env.post.trace[i].Args) > 0 {
				return env.post.trace[i].Args[0]
			}
		}
		return env.fail("no callback was invoked on this path")
	case "doc":
		return sym(Select(env.st().g.Docs, mkId(argT(0), argT(1)), SRow))
	case "docAt":
		return sym(Select(env.st().g.Docs, argT(0), SRow))
	case "mkId":
		return sym(mkId(argT(0), argT(1)))
	case "isnull":
		v := env.eval(n.Args[0])
		return sym(e.isNilTerm(env.post, v))
	case "len":
		return sym(e.lenOf(env.post, env.eval(n.Args[0])))
	case "lenlist":
		if l, ok := env.eval(n.Args[0]).(rList); ok {
			return sym(IntLit(int64(len(l.items))))
		}
		return env.fail("lenlist of non-list")
	case "absexp":
		return sym(App(SInt, "absexp", argT(0), argT(1)))
	case "bit":
		// bit(x, 16): the bit with value 16 is set in x
		return sym(Eq(App(SInt, "mod", App(SInt, "div", argT(0), argT(1)), IntLit(2)), IntLit(1)))
	case "sqlAllInTxn":
		// every SQL statement of the call ran on the transaction handle while the transaction was open
		ok := true
		for _, ev := range env.post.trace {
			if ev.Kind == "sql" {
				info, _ := ev.Extra.(*StmtInfo)
				if !ev.InTxn || info == nil || info.Handle != "tx" {
					ok = false
				}
			}
		}
		return sym(BoolLit(ok))
	case "writesAllInTxn":
		ok := true
		for _, ev := range env.post.trace {
			if ev.Kind == "sql" {
				info, _ := ev.Extra.(*StmtInfo)
				if info != nil && info.Writes && (!ev.InTxn || info.Handle != "tx") {
					ok = false
				}
			}
		}
		return sym(BoolLit(ok))
	case "oneTxn":
		n := 0
		for _, ev := range env.post.trace {
			if ev.Kind == "begin" {
				n++
			}
		}
		return sym(BoolLit(n <= 1))
	case "casDrawnInTxn":
		ok := true
		for _, ev := range env.post.trace {
			if ev.Kind == "hlcnow" && !ev.InTxn {
				ok = false
			}
		}
		return sym(BoolLit(ok))
	case "lockedThroughout":
		// lockedThroughout("c.bucket.mutex"): every SQL statement, Begin and Commit happened with the lock held
		if n.Args[0].Op == "str" {
			ok := true
			for _, ev := range env.post.trace {
				switch ev.Kind {
				case "sql", "begin", "commit", "rollback", "hlcnow":
					held := false
					for _, l := range ev.Locks {
						if l == n.Args[0].Text {
							held = true
						}
					}
					if !held {
						ok = false
					}
				}
			}
			return sym(BoolLit(ok))
		}
	case "postsAfterCommit":
		// every event is posted after the commit, outside the transaction
		ok := true
		committed := false
		for _, ev := range env.post.trace {
			if ev.Kind == "commit" {
				committed = true
			}
			if ev.Kind == "post" && (!committed || ev.InTxn) {
				ok = false
			}
		}
		return sym(BoolLit(ok))
	case "stmtsScoped":
		// stmtsScoped(cid): every statement on a collection-scoped table is restricted to collection cid
		cid := argT(0)
		res := TTrue
		for _, ev := range env.post.trace {
			if ev.Kind != "sql" {
				continue
			}
			info, _ := ev.Extra.(*StmtInfo)
			if info == nil {
				res = TFalse
				continue
			}
			switch strings.ToLower(info.Table) {
			case "documents", "designdocs", "collections":
				if info.Stmt != nil && info.Kind == "insert" && strings.EqualFold(info.Table, "collections") {
					continue
				}
				if info.CollTerm.S == "" {
					res = TFalse
				} else {
					res = And(res, Eq(info.CollTerm, cid))
				}
			}
		}
		return sym(res)
	case "rawof":
		// the []byte a value is stored as (spec of encodeAsRaw): nil -> NULL, []byte -> itself, otherwise its JSON encoding
		switch v := env.eval(n.Args[0]).(type) {
		case VNil:
			return sym(nullB)
		case VSym:
			if v.T.Sort == SBytes {
				return v
			}
		case VIface:
			switch inner := v.V.(type) {
			case VSym:
				if inner.T.Sort == SBytes {
					return inner
				}
			case VAbs:
				if inner.Kind == "json" {
					return sym(App(SBytes, "j.marshal", inner.Data.(Term)))
				}
			}
			// any other JSON-marshalable value
			jm := App(SBytes, "j.marshal", e.jsonOfValue(env.post, v))
			env.post.fact(Not(Eq(jm, nullB)))
			return sym(jm)
		}
		return env.fail("rawof: unsupported value shape")
	case "concat":
		cc := App(SBytes, "b.concat", argT(0), argT(1))
		env.post.fact(Not(Eq(cc, nullB)))
		return sym(cc)
	case "stmtWhereOn":
		// stmtWhereOn("delete", "mapped", n, col1, val1, ..., docId): the WHERE of the n-th statement of that kind on that
		// table, evaluated on a row whose named columns have the given values; `x IN (SELECT id FROM documents ..)` refers
		// to the documents row docId.
		if len(n.Args) >= 4 && n.Args[0].Op == "str" && n.Args[1].Op == "str" {
			want, _ := constIndex(env.eval(n.Args[2]))
			cols := map[string]Term{}
			for i := 3; i+1 < len(n.Args)-0 && n.Args[i].Op == "str"; i += 2 {
				cols[strings.ToLower(n.Args[i].Text)] = argT(i + 1)
			}
			docID := argT(len(n.Args) - 1)
			k := 0
			for _, ev := range env.post.trace {
				info, _ := ev.Extra.(*StmtInfo)
				if ev.Kind != "sql" || info == nil || info.Stmt == nil || info.Kind != n.Args[0].Text || !strings.EqualFold(info.Table, n.Args[1].Text) {
					continue
				}
				if k != want {
					k++
					continue
				}
				params := *info.Params
				params.next = 0
				c := &evalCtx{e: e, st: env.post, params: &params, table: info.Table, docOfIn: docID, docsIn: info.DocsAt}
				c.other = func(col string) SQLVal {
					if t, ok := cols[col]; ok {
						return SQLVal{T: t, Null: TFalse}
					}
					return SQLVal{Any: true}
				}
				return sym(c.where(info.Stmt.Where))
			}
			return env.fail("no %s statement %d on %s on this path", n.Args[0].Text, want, n.Args[1].Text)
		}
	case "stmtParamOf":
		// stmtParamOf("update", "views", n, "lastCas"): the value the n-th such statement assigns to that column;
		// stmtParamOf(..., "where:id"): the value its WHERE compares that column with
		if len(n.Args) == 4 && n.Args[0].Op == "str" && n.Args[1].Op == "str" && n.Args[3].Op == "str" {
			want, _ := constIndex(env.eval(n.Args[2]))
			k := 0
			for _, ev := range env.post.trace {
				info, _ := ev.Extra.(*StmtInfo)
				if ev.Kind != "sql" || info == nil || info.Stmt == nil || info.Kind != n.Args[0].Text || !strings.EqualFold(info.Table, n.Args[1].Text) {
					continue
				}
				if k != want {
					k++
					continue
				}
				params := *info.Params
				params.next = 0
				c := &evalCtx{e: e, st: env.post, params: &params, table: info.Table}
				name := n.Args[3].Text
				// positional `?` parameters are consumed in textual order: values, then assignments, then the WHERE
				// conjuncts; every expression before the wanted one is evaluated so that the right argument is taken
				var found *SQLVal
				take := func(match bool, x *SQLExpr) {
					v := c.eval(x)
					if match && found == nil {
						found = &v
					}
				}
				for i, col := range info.Stmt.Cols {
					if i < len(info.Stmt.Values) {
						take(!strings.HasPrefix(name, "where:") && strings.EqualFold(col, name), info.Stmt.Values[i])
					}
				}
				for _, set := range info.Stmt.Sets {
					take(!strings.HasPrefix(name, "where:") && strings.EqualFold(set.Col, name), set.Expr)
				}
				for _, cj := range conjuncts(info.Stmt.Where) {
					if cj.Op == "=" && len(cj.Args) == 2 && cj.Args[0].Op == "col" {
						take(strings.HasPrefix(name, "where:") && strings.EqualFold(cj.Args[0].Name, name[min(6, len(name)):]), cj.Args[1])
					} else {
						c.eval(cj)
					}
				}
				if found != nil && !found.Any {
					return sym(found.T)
				}
				if strings.HasPrefix(name, "where:") {
					return env.fail("statement has no conjunct on %s", name[6:])
				}
				return env.fail("statement does not assign %s", name)
			}
			return env.fail("no %s statement %d on %s on this path", n.Args[0].Text, want, n.Args[1].Text)
		}
	case "stmtCount":
		if len(n.Args) == 2 && n.Args[0].Op == "str" && n.Args[1].Op == "str" {
			k := 0
			for _, ev := range env.post.trace {
				info, _ := ev.Extra.(*StmtInfo)
				if ev.Kind == "sql" && info != nil && info.Kind == n.Args[0].Text && strings.EqualFold(info.Table, n.Args[1].Text) {
					k++
				}
			}
			return sym(IntLit(int64(k)))
		}
	case "connopt":
		// connopt("_foreign_keys"): the value last given to that SQLite connection parameter on this path
		if n.Args[0].Op == "str" {
			for i := len(env.post.trace) - 1; i >= 0; i-- {
				if ev := env.post.trace[i]; ev.Kind == "urlopt" && ev.Text == n.Args[0].Text {
					return sym(ev.Terms["v"])
				}
			}
			if len(n.Args) == 2 {
				return env.eval(n.Args[1]) // connopt("mode", ""): the default when the option is not set
			}
			return env.fail("connection option %s is not set on this path", n.Args[0].Text)
		}
	case "schemaCol":
		// schemaCol("table", "column", "autoincrement" | "notnull" | "cascade:<table>" | "default:<v>"): a fact of schema.sql
		if len(n.Args) == 3 && n.Args[0].Op == "str" && n.Args[1].Op == "str" && n.Args[2].Op == "str" {
			def, ok := schemaColumnDef(e.schemaText, n.Args[0].Text, n.Args[1].Text)
			if !ok {
				return sym(TFalse)
			}
			d := " " + strings.Join(strings.Fields(strings.ToLower(def)), " ") + " "
			d = strings.ReplaceAll(strings.ReplaceAll(d, " (", "("), "( ", "(")
			want := strings.ToLower(n.Args[2].Text)
			switch {
			case want == "autoincrement":
				return sym(BoolLit(strings.Contains(d, " primary key autoincrement ")))
			case want == "notnull":
				return sym(BoolLit(strings.Contains(d, " not null ")))
			case strings.HasPrefix(want, "cascade:"):
				return sym(BoolLit(strings.Contains(d, " references "+want[8:]+"(id) on delete cascade ")))
			case strings.HasPrefix(want, "default:"):
				return sym(BoolLit(strings.Contains(d, " default "+want[8:]+" ")))
			}
			return env.fail("schemaCol: unknown attribute %s", want)
		}
	case "schemaUnique":
		// schemaUnique("table", "a,b"): the table declares UNIQUE over exactly those columns
		if len(n.Args) == 2 && n.Args[0].Op == "str" && n.Args[1].Op == "str" {
			return sym(BoolLit(schemaHasUnique(e.schemaText, n.Args[0].Text, n.Args[1].Text)))
		}
	case "marshalof":
		// marshalof(x): the bytes json.Marshal produces for x (a function of x's JSON value)
		return sym(App(SBytes, "j.marshal", e.jsonOfValue(env.post, env.eval(n.Args[0]))))
	case "calloutmap":
		// calloutmap("Short", i): identity of the map the last modular call to Short stored through its i-th (pointer)
		// argument (contracts with `flag outparams=`)
		if n.Args[0].Op == "str" {
			if idx, ok := constIndex(env.eval(n.Args[1])); ok {
				for i := len(env.post.trace) - 1; i >= 0; i-- {
					if ev := env.post.trace[i]; ev.Kind == "call:"+n.Args[0].Text {
						if t, ok := ev.Terms[fmt.Sprintf("outmap%d", idx)]; ok {
							return sym(t)
						}
						return env.fail("argument %d of %s is not an out-parameter holding a map", idx, n.Args[0].Text)
					}
				}
			}
			return env.fail("no call to %s on this path", n.Args[0].Text)
		}
	case "byteat":
		// byteat(b, i): the i-th byte of the byte slice b
		return sym(App(SInt, "b.at", argT(0), argT(1)))
	case "carried":
		// carried(): the one loop-carried variable of type `any` of the loop under this clause
		if env.useHead && env.headVars != nil {
			if v, ok := env.headVars["carried$"]; ok {
				return v
			}
		} else if v, ok := env.vars["carried$"]; ok {
			return v
		}
		return env.fail("carried(): the loop does not carry exactly one variable of type any")
	case "itercount":
		// itercount(): iterations completed before the current one (value of the loop's unit-step counter at the head
		// of this iteration, minus its initial value)
		// in a body clause: iterations completed before this one (head of the iteration); in an invariant: iterations
		// completed so far (the state the invariant is stated in)
		if env.headVars != nil && !env.invClause {
			if v, ok := env.headVars["itercount$"]; ok {
				return v
			}
			return env.fail("itercount(): the loop does not have exactly one unit-step counter")
		}
		if v, ok := env.vars["itercount$"]; ok {
			return v
		}
		return env.fail("itercount(): the loop does not have exactly one unit-step counter")
	case "nilmap":
		// nilmap(x): the Go map x denotes (a map value or an interface holding one) is a nil map; an interface holding a
		// nil map is itself not nil, so `x != nil` does not say this
		v := env.eval(n.Args[0])
		if iv, ok := v.(VIface); ok {
			v = iv.V
		}
		switch x := v.(type) {
		case VMap:
			return sym(e.isNilTerm(env.post, x))
		case VNil:
			return sym(TTrue)
		}
		return env.fail("nilmap: %s is not a map (%s)", nodeText(n.Args[0]), showValue(v))
	case "mapid":
		// mapid(x): identity of the Go map x denotes (a map value, an interface holding one, or a decoded JSON object)
		v := env.eval(n.Args[0])
		if iv, ok := v.(VIface); ok {
			v = iv.V
		}
		switch x := v.(type) {
		case VMap:
			return sym(e.mapIdent(env.post, x.Cell))
		case VAbs:
			if x.Kind == "json" {
				if jt, ok := x.Data.(Term); ok {
					return sym(e.jsonMapIdent(env.post, jt))
				}
			}
		}
		return env.fail("mapid: %s is not a map (%s)", nodeText(n.Args[0]), showValue(v))
	case "writtenmap", "writtenkey":
		// the map / key of the last map update or delete on this path
		for i := len(env.post.trace) - 1; i >= 0; i-- {
			if ev := env.post.trace[i]; (ev.Kind == "mapupdate" || ev.Kind == "mapdelete") && ev.Terms != nil {
				key := "m"
				if n.Text == "writtenkey" {
					key = "k"
				}
				if t, ok := ev.Terms[key]; ok {
					if key == "m" {
						if c, ok := t.intConst(); ok {
							return sym(e.mapIdent(env.post, int(c.Int64())))
						}
					}
					return sym(t)
				}
			}
		}
		return env.fail("no map write on this path")
	case "deletedpresent":
		// deletedpresent(): the key removed by the last map delete on this path was present in the map
		for i := len(env.post.trace) - 1; i >= 0; i-- {
			if ev := env.post.trace[i]; ev.Kind == "mapdelete" {
				if t, ok := ev.Terms["present"]; ok {
					return sym(t)
				}
				return env.fail("the last map delete is on a map without an SMT image")
			}
		}
		return env.fail("no map delete on this path")
	case "mapwasread":
		// mapwasread(id, key): some lookup on this path read that key of that map
		id, key := argT(0), argT(1)
		var alts []Term
		for _, ev := range env.post.trace {
			if ev.Kind == "mapread" && ev.Terms != nil {
				mt := ev.Terms["m"]
				if c, ok := mt.intConst(); ok {
					mt = e.mapIdent(env.post, int(c.Int64()))
				}
				alts = append(alts, And(Eq(mt, id), Eq(ev.Terms["k"], key)))
			}
		}
		return sym(Or(alts...))
	case "lastfound":
		// lastfound(): the entry the last successful lookup in a structured input map returned
		for i := len(env.post.trace) - 1; i >= 0; i-- {
			if ev := env.post.trace[i]; ev.Kind == "maplookup.present" {
				if v, ok := ev.Extra.(Value); ok {
					return v
				}
			}
		}
		return env.fail("no successful map lookup on this path")
	case "extarg":
		// extarg("Name", i): i-th argument of the last call to that unmodelled external function
		if n.Args[0].Op == "str" {
			if idx, ok := constIndex(env.eval(n.Args[1])); ok {
				for i := len(env.post.trace) - 1; i >= 0; i-- {
					if ev := env.post.trace[i]; ev.Kind == "ext:"+n.Args[0].Text && idx < len(ev.Args) {
						return ev.Args[idx]
					}
				}
			}
			return env.fail("no call to external %s on this path", n.Args[0].Text)
		}
	case "extret":
		// extret("Name", i): i-th result of the last call to that unmodelled external function (an unconstrained value)
		if n.Args[0].Op == "str" {
			if idx, ok := constIndex(env.eval(n.Args[1])); ok {
				for i := len(env.post.trace) - 1; i >= 0; i-- {
					if ev := env.post.trace[i]; ev.Kind == "ext:"+n.Args[0].Text {
						switch rv := ev.Extra.(type) {
						case VTuple:
							if idx < len(rv.E) {
								return rv.E[idx]
							}
						case Value:
							if idx == 0 && rv != nil {
								return rv
							}
						}
						return env.fail("external %s has no result %d", n.Args[0].Text, idx)
					}
				}
			}
			return env.fail("no call to external %s on this path", n.Args[0].Text)
		}
	case "atomicbool":
		// atomicbool(x): the value of a sync/atomic.Bool field
		if sv, ok := env.eval(n.Args[0]).(VStruct); ok && len(sv.F) > 0 {
			if f, ok := sv.F[len(sv.F)-1].(VSym); ok && f.T.Sort == SInt {
				return sym(Not(Eq(f.T, IntLit(0))))
			}
		}
		return env.fail("atomicbool: %s is not an atomic.Bool", nodeText(n.Args[0]))
	case "heldlike":
		// heldlike("bucket.mutex"): a lock whose name contains the text is held now
		if n.Args[0].Op == "str" {
			for _, h := range env.post.locks {
				if strings.Contains(h, n.Args[0].Text) {
					return sym(TTrue)
				}
			}
			return sym(TFalse)
		}
	case "lockcount":
		// lockcount("expManager.mutex"): number of acquisitions on this path of locks whose name contains the text
		if n.Args[0].Op == "str" {
			c := 0
			for _, ev := range env.post.trace {
				if ev.Kind == "lock" && strings.Contains(ev.Text, n.Args[0].Text) {
					c++
				}
			}
			return sym(IntLit(int64(c)))
		}
	case "onecritical":
		// onecritical("kindA", "kindB", "lock"): the last event of kind A before the first event of kind B, and that
		// event of kind B, both happen while a lock whose name contains the text is held, and that lock is not released
		// in between (one critical section). False if either event is missing.
		if n.Args[0].Op == "str" && n.Args[1].Op == "str" && n.Args[2].Op == "str" {
			tr := env.post.trace
			bi := -1
			for i, ev := range tr {
				if ev.Kind == n.Args[1].Text {
					bi = i
					break
				}
			}
			ai := -1
			for i := bi - 1; i >= 0; i-- {
				if tr[i].Kind == n.Args[0].Text {
					ai = i
					break
				}
			}
			if ai < 0 || bi < 0 {
				return sym(TFalse)
			}
			holds := func(ev TraceEv) bool {
				for _, h := range ev.Locks {
					if strings.Contains(h, n.Args[2].Text) {
						return true
					}
				}
				return false
			}
			if !holds(tr[ai]) || !holds(tr[bi]) {
				return sym(TFalse)
			}
			for i := ai + 1; i < bi; i++ {
				if tr[i].Kind == "unlock" && strings.Contains(tr[i].Text, n.Args[2].Text) {
					return sym(TFalse)
				}
			}
			return sym(TTrue)
		}
	case "lockedunder":
		// lockedunder("inner", "outer"): on this path some lock whose name contains `inner` was acquired while a lock
		// whose name contains `outer` was held
		if n.Args[0].Op == "str" && n.Args[1].Op == "str" {
			for _, ev := range env.post.trace {
				if ev.Kind == "lock" && strings.Contains(ev.Text, n.Args[0].Text) {
					for _, h := range ev.Locks {
						if strings.Contains(h, n.Args[1].Text) {
							return sym(TTrue)
						}
					}
				}
			}
			return sym(TFalse)
		}
	case "lastinsertid", "lastrowsaffected":
		// what the result of the last executed statement reports
		for i := len(env.post.trace) - 1; i >= 0; i-- {
			if ev := env.post.trace[i]; ev.Kind == "sqlresult" {
				if n.Text == "lastinsertid" {
					return sym(ev.Terms["last"])
				}
				return sym(ev.Terms["rows"])
			}
		}
		return env.fail("no statement was executed on this path")
	case "stmtText":
		// stmtText(i): the text of the i-th SQL statement issued on this path
		if idx, ok := constIndex(env.eval(n.Args[0])); ok {
			k := 0
			for _, ev := range env.post.trace {
				if ev.Kind == "sql" {
					if k == idx {
						return sym(e.strLit(ev.Text))
					}
					k++
				}
			}
			return env.fail("no SQL statement %d on this path", idx)
		}
	case "cteOK", "cteRest", "cteWhere", "cteCol", "cteCols", "cteColIsText":
		// the statement text s is `WITH _keyspace AS (SELECT ... FROM documents WHERE ...) <spliced string>`
		text, ok := e.reverseStr(argT(0).S)
		if !ok {
			if n.Text == "cteOK" {
				return sym(TFalse)
			}
			return env.fail("%s: the text is not a literal with holes", n.Text)
		}
		stmt, err := parseSQL(text)
		var sub *SQLStmt
		good := err == nil && stmt.Kind == "with" && len(stmt.WithOrder) == 1 && stmt.WithOrder[0] == "_keyspace"
		var restHole Term
		if good {
			sub = stmt.With["_keyspace"]
			good = strings.EqualFold(sub.Table, "documents") && len(sub.Join) == 0 && sub.Limit == nil && sub.Where != nil
			var hn int
			if c, _ := fmt.Sscanf(stmt.Rest, "#%d", &hn); c == 1 && stmt.Rest == fmt.Sprintf("#%d", hn) && hn < len(e.holes) && e.holes[hn].Sort == SStr {
				restHole = e.holes[hn]
			} else {
				good = false
			}
		}
		switch n.Text {
		case "cteOK":
			return sym(BoolLit(good))
		case "cteRest":
			if !good {
				return env.fail("cteRest: not a keyspace statement")
			}
			return sym(restHole)
		case "cteCols":
			if !good {
				return env.fail("cteCols: not a keyspace statement")
			}
			return sym(IntLit(int64(len(sub.Sel))))
		case "cteWhere":
			if !good {
				return env.fail("cteWhere: not a keyspace statement")
			}
			c := &evalCtx{e: e, st: env.post, params: &sqlParams{named: map[string]SQLVal{}}, table: "documents"}
			id := argT(1)
			c.row, c.id = Select(env.post.g.Docs, id, SRow), id
			return sym(And(rowPresent(c.row), c.where(sub.Where)))
		case "cteColIsText":
			// the column is CAST(... AS TEXT): SQLite's JSON operators read a BLOB argument as JSONB (3.45+), so a JSON
			// document stored as a blob has to be handed to them as text
			if !good || n.Args[1].Op != "str" {
				return env.fail("cteColIsText: not a keyspace statement")
			}
			for _, it := range sub.Sel {
				name := it.Alias
				if name == "" && it.Expr != nil && it.Expr.Op == "col" {
					name = it.Expr.Name
				}
				if !it.Star && strings.EqualFold(name, n.Args[1].Text) {
					return sym(BoolLit(it.Expr != nil && it.Expr.Op == "cast" && it.Expr.Name == "text"))
				}
			}
			return sym(TFalse)
		case "cteCol":
			if !good || n.Args[1].Op != "str" {
				return env.fail("cteCol: not a keyspace statement")
			}
			c := &evalCtx{e: e, st: env.post, params: &sqlParams{named: map[string]SQLVal{}}, table: "documents"}
			id := argT(2)
			c.row, c.id = Select(env.post.g.Docs, id, SRow), id
			for _, it := range sub.Sel {
				name := it.Alias
				if name == "" && it.Expr != nil && it.Expr.Op == "col" {
					name = it.Expr.Name
				}
				if !it.Star && strings.EqualFold(name, n.Args[1].Text) {
					v := c.eval(it.Expr)
					if v.Any {
						return env.fail("cteCol: column %s not evaluable", name)
					}
					return sym(v.T)
				}
			}
			return env.fail("cteCol: no column %s", n.Args[1].Text)
		}
	case "cursorWhere":
		// cursorWhere(i, id): the WHERE clause of the i-th SELECT cursor opened on this path holds for row id
		if idx, ok := constIndex(env.eval(n.Args[0])); ok {
			k := 0
			for _, ev := range env.post.trace {
				info, _ := ev.Extra.(*StmtInfo)
				if ev.Kind == "sql" && info != nil && info.Kind == "select" && info.Cursor != nil {
					if k == idx {
						c := &evalCtx{e: e, st: env.post, params: info.Cursor.Params, table: "documents"}
						id := argT(1)
						c.row, c.id = Select(info.Cursor.Docs, id, SRow), id
						return sym(And(rowPresent(c.row), c.where(info.Stmt.Where)))
					}
					k++
				}
			}
			return env.fail("no cursor %d on this path", idx)
		}
	case "cursorOrderText", "cursorJoinText", "cursorHasConjunct", "cursorLimitIs", "cursorSelText":
		// pieces of the i-th SELECT cursor of this path in canonical text (see sqlExprText)
		if idx, ok := constIndex(env.eval(n.Args[0])); ok {
			k := 0
			for _, ev := range env.post.trace {
				info, _ := ev.Extra.(*StmtInfo)
				if ev.Kind == "sql" && info != nil && info.Kind == "select" && info.Cursor != nil {
					if k == idx {
						stmt := info.Stmt
						switch n.Text {
						case "cursorOrderText":
							var ps []string
							for i, ob := range stmt.OrderBy {
								t := sqlExprText(ob)
								if stmt.OrderDesc[i] {
									t += " desc"
								}
								ps = append(ps, t)
							}
							return sym(e.strLit(strings.Join(ps, ",")))
						case "cursorJoinText":
							var ps []string
							for i, j := range stmt.Join {
								t := strings.ToLower(stmt.Table) + " join " + strings.ToLower(j)
								if i < len(stmt.JoinOn) {
									a := sqlExprText(stmt.JoinOn[i])
									// an equality is symmetric: canonical order of its sides
									if x := stmt.JoinOn[i]; (x.Op == "=" || x.Op == "==") && len(x.Args) == 2 {
										l, r := sqlExprText(x.Args[0]), sqlExprText(x.Args[1])
										if r < l {
											l, r = r, l
										}
										a = l + "=" + r
									}
									t += " on " + a
								}
								ps = append(ps, t)
							}
							return sym(e.strLit(strings.Join(ps, ";")))
						case "cursorHasConjunct":
							if n.Args[1].Op == "str" {
								for _, c := range conjuncts(stmt.Where) {
									if sqlExprText(c) == n.Args[1].Text {
										return sym(TTrue)
									}
								}
								return sym(TFalse)
							}
						case "cursorSelText":
							var ps []string
							for _, it := range stmt.Sel {
								ps = append(ps, sqlExprText(it.Expr))
							}
							return sym(e.strLit(strings.Join(ps, ",")))
						case "cursorLimitIs":
							// cursorLimitIs(i, n): the statement has LIMIT n
							if stmt.Limit == nil {
								return sym(TFalse)
							}
							c := &evalCtx{e: e, st: env.post, params: info.Cursor.Params}
							v := c.evalNoRow(stmt.Limit)
							if v.Any {
								return env.fail("LIMIT not evaluable")
							}
							return sym(Eq(v.T, argT(1)))
						}
					}
					k++
				}
			}
			return env.fail("no cursor %d on this path", idx)
		}
	case "cursorOrderBy":
		// cursorOrderBy(i, "cas"): the i-th cursor is ordered by exactly that column, ascending
		if idx, ok := constIndex(env.eval(n.Args[0])); ok && n.Args[1].Op == "str" {
			k := 0
			for _, ev := range env.post.trace {
				info, _ := ev.Extra.(*StmtInfo)
				if ev.Kind == "sql" && info != nil && info.Kind == "select" && info.Cursor != nil {
					if k == idx {
						ob := info.Stmt.OrderBy
						good := len(ob) == 1 && ob[0].Op == "col" && strings.EqualFold(ob[0].Name, n.Args[1].Text) && !info.Stmt.OrderDesc[0]
						return sym(BoolLit(good))
					}
					k++
				}
			}
			return sym(TFalse)
		}
	case "cursorSelects":
		// cursorSelects(i, "cas"): the select list of the i-th cursor contains that plain column
		if idx, ok := constIndex(env.eval(n.Args[0])); ok && n.Args[1].Op == "str" {
			k := 0
			for _, ev := range env.post.trace {
				info, _ := ev.Extra.(*StmtInfo)
				if ev.Kind == "sql" && info != nil && info.Kind == "select" && info.Cursor != nil {
					if k == idx {
						for _, it := range info.Stmt.Sel {
							if it.Expr != nil && it.Expr.Op == "col" && strings.EqualFold(it.Expr.Name, n.Args[1].Text) {
								return sym(TTrue)
							}
						}
						return sym(TFalse)
					}
					k++
				}
			}
			return sym(TFalse)
		}
	case "cursorCount":
		k := 0
		for _, ev := range env.post.trace {
			info, _ := ev.Extra.(*StmtInfo)
			if ev.Kind == "sql" && info != nil && info.Kind == "select" && info.Cursor != nil {
				k++
			}
		}
		return sym(IntLit(int64(k)))
	case "cursorRow":
		if env.post.lastCursor.S == "" {
			return env.fail("no cursor row on this path")
		}
		return sym(Select(env.post.lastCursorDocs, env.post.lastCursor, SRow))
	case "cursorId":
		if env.post.lastCursor.S == "" {
			return env.fail("no cursor row on this path")
		}
		return sym(env.post.lastCursor)
	case "lastpushed":
		// the FeedEv most recently pushed on a queue on this path
		for i := len(env.post.trace) - 1; i >= 0; i-- {
			if env.post.trace[i].Kind == "list.pushfront" {
				return sym(env.post.trace[i].Terms["ev"])
			}
		}
		return env.fail("nothing was pushed on this path")
	case "isclosedDB":
		if iv, ok := env.eval(n.Args[0]).(VIface); ok && iv.Typ != nil {
			return sym(BoolLit(typeIsPkg(iv.Typ, rosmarPkg, "closedDB")))
		}
		return sym(TFalse)
	case "scanned":
		// scanned(i): the i-th scalar value a Scan assigned on this path
		if idx, ok := constIndex(env.eval(n.Args[0])); ok {
			k := 0
			for _, ev := range env.post.trace {
				if ev.Kind == "scanned" {
					if k == idx {
						return sym(ev.Terms["v"])
					}
					k++
				}
			}
			return env.fail("no scanned value %d on this path", idx)
		}
	case "tracepos":
		if n.Args[0].Op == "str" {
			for i, ev := range env.post.trace {
				if ev.Kind == n.Args[0].Text {
					return sym(IntLit(int64(i)))
				}
			}
			return sym(IntLit(-1))
		}
	case "haskey":
		if mv, ok := env.eval(n.Args[0]).(VMap); ok {
			return sym(env.mapHas(mv, env.eval(n.Args[1])))
		}
		if _, ok := env.eval(n.Args[0]).(VNil); ok {
			return sym(TFalse)
		}
		return env.fail("haskey of non-map")
	case "bytesof":
		r := App(SBytes, "b.ofstr", argT(0))
		env.post.fact(Not(Eq(r, nullB)))
		return sym(r)
	case "listlen":
		if l, _, ok := e.listObj(env.st(), env.eval(n.Args[0])); ok {
			return sym(l.Len)
		}
		return env.fail("listlen of non-list")
	case "listnil":
		v := env.eval(n.Args[0])
		return sym(e.isNilTerm(env.st(), v))
	case "leftloopearly":
		// the path entered the body of a loop (under the cut-point rule) and left it other than through the back edge
		return sym(BoolLit(env.post.bodyEntered))
	case "collid":
		return sym(App(SInt, "collid", argT(0), argT(1)))
	case "b2i":
		return sym(Ite(argT(0), IntLit(1), IntLit(0)))
	case "looksjson":
		return sym(App(SBool, "b.looksjson", argT(0)))
	case "collLast":
		return sym(Select(env.st().g.CollLastCas, argT(0), SInt))
	case "ismissing":
		return sym(env.errIs(env.eval(n.Args[0]), sgb, "MissingError"))
	case "wrapsmissing":
		// wrapsmissing(err): err is, or wraps (%w), a sgbucket.MissingError - what errors.As finds
		v := env.eval(n.Args[0])
		if id, ok := opaqueErrID(v); ok {
			return sym(env.post.declare(fmt.Sprintf("err.%d.is.%s", id, "MissingError"), SBool))
		}
		if iv, ok := v.(VIface); ok {
			chain, _ := env.e.unwrapChain(env.post, iv)
			for _, c := range chain {
				if id, ok := opaqueErrID(c); ok {
					return sym(env.post.declare(fmt.Sprintf("err.%d.is.%s", id, "MissingError"), SBool))
				}
				if c.Typ != nil && typeIsPkg(c.Typ, sgb, "MissingError") {
					return sym(TTrue)
				}
			}
		}
		return sym(TFalse)
	case "iscasmismatch":
		return sym(env.errIs(env.eval(n.Args[0]), sgb, "CasMismatchErr"))
	case "istoobig":
		return sym(env.errIs(env.eval(n.Args[0]), sgb, "DocTooBigErr"))
	case "isdberr":
		return sym(env.errIs(env.eval(n.Args[0]), rosmarPkg, "DatabaseError"))
	case "iskeyexists":
		return sym(env.errIsSentinel(env.eval(n.Args[0]), "sg-bucket.ErrKeyExists"))
	case "isclosed":
		return sym(env.errIsSentinel(env.eval(n.Args[0]), "rosmar.ErrBucketClosed"))
	case "ispathnotfound":
		return sym(env.errIsSentinel(env.eval(n.Args[0]), "sg-bucket.ErrPathNotFound"))
	case "issentinel":
		if len(n.Args) == 2 && n.Args[1].Op == "str" {
			return sym(env.errIsSentinel(env.eval(n.Args[0]), n.Args[1].Text))
		}
	case "held":
		if n.Args[0].Op == "str" {
			return sym(BoolLit(env.post.holds(n.Args[0].Text)))
		}
	case "nolocks":
		return sym(BoolLit(len(env.post.locks) == 0))
	case "intxn":
		return sym(BoolLit(env.post.txn != nil))
	case "iter":
		// iter("kind"): number of trace events of that kind since the head of the enclosing loop iteration
		if n.Args[0].Op == "str" {
			from := 0
			if env.iterKey != "" {
				from = env.post.loopMark[env.iterKey]
			} else {
				// in a function postcondition: the iteration of the innermost loop the path was in (whole path if none)
				for _, m := range env.post.loopMark {
					if m > from {
						from = m
					}
				}
			}
			c := 0
			for i := from; i < len(env.post.trace); i++ {
				if env.post.trace[i].Kind == n.Args[0].Text {
					c++
				}
			}
			return sym(IntLit(int64(c)))
		}
	case "count":
		// count("kind"): number of trace events of that kind on this path
		if n.Args[0].Op == "str" {
			c := 0
			for _, ev := range env.post.trace {
				if ev.Kind == n.Args[0].Text {
					c++
				}
			}
			return sym(IntLit(int64(c)))
		}
	case "xmap":
		e.needXattr = true
		return sym(App(SXMap, "xmap", argT(0)))
	case "xget":
		e.needXattr = true
		return sym(Select(App(SXMap, "xmap", argT(0)), argT(1), SBytes))
	case "xhas":
		e.needXattr = true
		return sym(Not(Eq(Select(App(SXMap, "xmap", argT(0)), argT(1), SBytes), mkT("NOX", SBytes))))
	case "xok":
		return sym(App(SBool, "xok", argT(0)))
	case "xmapnil":
		return sym(App(SBool, "xmapnil", argT(0)))
	case "issys":
		return sym(App(SBool, "s.sys", argT(0)))
	case "min":
		a, b := argT(0), argT(1)
		return sym(Ite(Le(a, b), a, b))
	case "max":
		a, b := argT(0), argT(1)
		return sym(Ite(Ge(a, b), a, b))
	}
	if sp, ok := env.specs[n.Text]; ok {
		if len(sp.Params) != len(n.Args) {
			return env.fail("spec %s expects %d arguments", n.Text, len(sp.Params))
		}
		if env.depth > 20 {
			return env.fail("spec recursion too deep at %s", n.Text)
		}
		args := make([]Value, len(n.Args))
		savedPol := env.pol
		env.pol = 0
		for i, a := range n.Args {
			args[i] = env.eval(a)
		}
		env.pol = savedPol
		saved := map[string]Value{}
		had := map[string]bool{}
		savedT := map[string]types.Type{}
		argTypes := make([]types.Type, len(n.Args))
		for i, a := range n.Args {
			argTypes[i] = env.typeOf(a)
		}
		for i, p := range sp.Params {
			saved[p], had[p] = env.vars[p], false
			if _, ok := env.vars[p]; ok {
				had[p] = true
			}
			env.vars[p] = args[i]
			savedT[p] = env.typs[p]
			if argTypes[i] != nil {
				env.typs[p] = argTypes[i]
			}
		}
		defer func() {
			for _, p := range sp.Params {
				if savedT[p] != nil {
					env.typs[p] = savedT[p]
				} else {
					delete(env.typs, p)
				}
			}
		}()
		env.depth++
		v := env.eval(sp.Body)
		env.depth--
		for _, p := range sp.Params {
			if had[p] {
				env.vars[p] = saved[p]
			} else {
				delete(env.vars, p)
			}
		}
		return v
	}
	// uninterpreted function declared in the prelude with a "fun" directive
	if uf, ok := env.e.contracts.ufuns[n.Text]; ok {
		var ts []Term
		for i := range n.Args {
			ts = append(ts, argT(i))
		}
		if uf.needX {
			e.needXattr = true
		}
		return sym(App(uf.ret, n.Text, ts...))
	}
	return env.fail("unknown function %s/%d", n.Text, len(n.Args))
}

type uFun struct {
	ret   *Sort
	needX bool
}

func (env *rEnv) String() string { return fmt.Sprintf("env(%d vars)", len(env.vars)) }

// mapIndex evaluates m[k] in a contract: the stored value, or the zero value when the key is absent.
func (env *rEnv) mapIndex(mv VMap, key Value, n *rNode) Value {
	e := env.e
	st := env.st()
	obj, ok := st.heap[mv.Cell].(*MapObj)
	if !ok {
		return env.fail("not a map")
	}
	if obj.Struct {
		ks := showValue(key)
		if v, ok := obj.Entries[ks]; ok {
			return v
		}
		// untouched entry of an input map: the same lazily named object the executor would create
		if !obj.Fresh && obj.Name != "" {
			return e.entryValue(st, obj, ks)
		}
		return VAbs{Kind: "mapentry", ID: mv.Cell, Data: ks}
	}
	kt, ok := key.(VSym)
	if !ok {
		return env.fail("map key is not a scalar")
	}
	raw := Select(obj.Arr, kt.T, obj.ValSort)
	if lo, hi, ok := intRange(obj.Typ.Elem()); ok {
		env.post.fact(And(Ge(raw, mkT(lo, SInt)), Le(raw, mkT(hi, SInt))))
	}
	if obj.Has.S != "" {
		zero := e.zeroOf(obj.Typ.Elem()).(VSym).T
		return sym(Ite(Select(obj.Has, kt.T, SBool), raw, zero))
	}
	return sym(raw)
}

func (env *rEnv) mapHas(mv VMap, key Value) Term {
	st := env.st()
	obj, ok := st.heap[mv.Cell].(*MapObj)
	if !ok {
		return TFalse
	}
	if obj.Struct {
		ks := showValue(key)
		if _, ok := obj.Entries[ks]; ok {
			if f, ok := obj.Found[ks]; ok {
				return f
			}
			return TTrue
		}
		if obj.Fresh {
			return TFalse
		}
		return env.e.structHasTerm(st, obj, key)
	}
	kt, ok := key.(VSym)
	if !ok {
		return TFalse
	}
	if obj.Has.S != "" {
		return Select(obj.Has, kt.T, SBool)
	}
	return Not(Eq(Select(obj.Arr, kt.T, obj.ValSort), obj.Absent))
}

func (e *Engine) nullStringType() *types.Struct {
	for _, p := range e.prog.AllPackages() {
		if p.Pkg.Path() == "database/sql" {
			if tn := p.Pkg.Scope().Lookup("NullString"); tn != nil {
				return tn.Type().Underlying().(*types.Struct)
			}
		}
	}
	return nil
}

// mapIdent: the identity of a Go map as a term. Maps obtained from a decoded JSON value are identified by that value
// (asserting the same `any` to map[string]any twice gives the same map); other maps by their cell.
func (e *Engine) mapIdent(st *State, cell int) Term {
	for k, c := range st.jsonMaps {
		if c == cell && strings.HasPrefix(k, "jsonmap:") {
			return e.jsonMapIdent(st, mkT(k[len("jsonmap:"):], SJson))
		}
	}
	return IntLit(int64(cell))
}

func (e *Engine) jsonMapIdent(st *State, jt Term) Term {
	id := App(SInt, "j.mapid", jt)
	st.fact(Lt(id, IntLit(0))) // never collides with a cell number
	return id
}
