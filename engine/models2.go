package main

// JSON, feed-event and cursor models.

import (
	"fmt"
	"go/types"

	"golang.org/x/tools/go/ssa"
)

type ssaGlobal = ssa.Global

// ---------------------------------------------------------------------------
// encoding/json (A-JSON)

func (e *Engine) jsonOfValue(st *State, v Value) Term {
	switch a := v.(type) {
	case VAbs:
		if a.Kind == "json" {
			return a.Data.(Term)
		}
	case VNil:
		return mkT("JNULL", SJson)
	case VIface:
		switch inner := a.V.(type) {
		case VAbs:
			if inner.Kind == "json" {
				return inner.Data.(Term)
			}
		case VSym:
			switch inner.T.Sort {
			case SStr:
				return App(SJson, "j.ofstr", inner.T)
			case SInt:
				return App(SJson, "j.ofint", inner.T)
			case SBytes:
				return App(SJson, "j.ofbytes", inner.T)
			}
		case VMap:
			if obj, _, ok := e.mapObj(st, inner); ok && !obj.Struct && obj.ValSort == SJson {
				return App(SJson, "j.ofmap", obj.Arr)
			}
		}
	}
	return e.fresh(st, "jsonv", SJson)
}

func (e *Engine) jsonAs(st *State, a VAbs, t types.Type) Value {
	jt := a.Data.(Term)
	if mt, ok := t.Underlying().(*types.Map); ok {
		if ks, vs, absent, ok := mapSorts(mt); ok && vs == SJson {
			obj := &MapObj{Typ: mt, KeySort: ks, ValSort: vs, Absent: absent}
			obj.Arr = App(SJMap, "j.asmap", jt)
			// aliasing: writes through this map mutate the JSON value itself; tracked by cell identity per json term
			key := "jsonmap:" + jt.S
			if cell, ok := st.jsonMaps[key]; ok {
				return VMap{cell}
			}
			cell := e.newCell(st, obj)
			if st.jsonMaps == nil {
				st.jsonMaps = map[string]int{}
			}
			st.jsonMaps[key] = cell
			return VMap{cell}
		}
	}
	if s := scalarSort(t); s == SBytes {
		return sym(App(SBytes, "j.asbytes", jt))
	}
	return e.havoc(st, t, "jsonas")
}

// jsonMarshal: json.Marshal(v any) ([]byte, error)
func jsonMarshal(e *Engine, st *State, args []Value, depth int, pos string, k func(*State, Value)) {
	v := args[0]
	if iv, ok := v.(VIface); ok {
		if mv, ok := iv.V.(VMap); ok {
			if obj, _, ok := e.mapObj(st, mv); ok && !obj.Struct && obj.ValSort == SBytes {
				// map[string]json.RawMessage: the xattr blob
				nilT := TFalse
				if obj.NilT.S != "" {
					nilT = obj.NilT
				}
				e.needXattr = true
				xm := App(SBytes, "xmarshal", obj.Arr, nilT)
				e.xmarshalFacts(st, xm, obj.Arr, nilT)
				k(st, VTuple{[]Value{sym(xm), VNil{}}})
				return
			}
		}
		if _, ok := iv.V.(VNil); ok {
			if mt, ok := iv.Typ.Underlying().(*types.Map); ok {
				if _, vs, absent, ok := mapSorts(mt); ok && vs == SBytes {
					e.needXattr = true
					empty := mkT(fmt.Sprintf("((as const (Array Str Bytes)) %s)", absent.S), SXMap)
					xm := App(SBytes, "xmarshal", empty, TTrue)
					e.xmarshalFacts(st, xm, empty, TTrue)
					k(st, VTuple{[]Value{sym(xm), VNil{}}})
					return
				}
			}
		}
	}
	// generic value: marshalling may fail; on success the bytes are a function of the JSON value
	jt := e.jsonOfValue(st, v)
	st2 := st.clone()
	k(st2, VTuple{[]Value{sym(nullB), e.sentinelErr(st2, "json.MarshalError")}})
	k(st, VTuple{[]Value{sym(App(SBytes, "j.marshal", jt)), VNil{}}})
}

// jsonUnmarshal: json.Unmarshal(data []byte, v any) error
func jsonUnmarshal(e *Engine, st *State, args []Value, depth int, pos string, k func(*State, Value)) {
	data, ok := args[0].(VSym)
	dst, ok2 := args[1].(VIface)
	if !ok || !ok2 {
		k(st, e.havoc(st, types.Universe.Lookup("error").Type(), "unmarshal"))
		return
	}
	p, isPtr := dst.V.(VPtr)
	pt, isPT := dst.Typ.(*types.Pointer)
	if !isPtr || !isPT {
		k(st, e.havoc(st, types.Universe.Lookup("error").Type(), "unmarshal"))
		return
	}
	elem := pt.Elem()
	if mt, isMap := elem.Underlying().(*types.Map); isMap {
		if ks, vs, absent, ok := mapSorts(mt); ok && vs == SBytes {
			// xattrs blob -> map[string]json.RawMessage
			e.needXattr = true
			okT := App(SBool, "xok", data.T)
			st2 := st.clone()
			st2.assume(Not(okT))
			k(st2, e.sentinelErr(st2, "json.SyntaxError"))
			st.assume(okT)
			obj := &MapObj{Typ: mt, KeySort: ks, ValSort: vs, Absent: absent}
			obj.Arr = App(SXMap, "xmap", data.T)
			obj.NilT = App(SBool, "xmapnil", data.T)
			st.fact(Implies(obj.NilT, Eq(obj.Arr, constArr(SStr, SBytes, absent))))
			cell := e.newCell(st, obj)
			e.store(st, p, VMap{cell})
			k(st, VNil{})
			return
		}
	}
	// generic destination
	okT := App(SBool, "j.ok", data.T)
	st2 := st.clone()
	st2.assume(Not(okT))
	k(st2, e.sentinelErr(st2, "json.SyntaxError"))
	st.assume(okT)
	jt := App(SJson, "j.parse", data.T)
	switch u := elem.Underlying().(type) {
	case *types.Interface:
		e.store(st, p, VIface{Typ: nil, V: VAbs{Kind: "json", ID: e.nextID(), Data: jt}})
		_ = u
	case *types.Basic:
		if scalarSort(elem) == SInt {
			e.store(st, p, sym(App(SInt, "j.asint", jt)))
		} else {
			e.store(st, p, e.havoc(st, elem, "unmarshalled"))
		}
	default:
		e.store(st, p, e.jsonAs(st, VAbs{Kind: "json", Data: jt}, elem))
	}
	k(st, VNil{})
}

// ---------------------------------------------------------------------------
// feed events

// feedEvTerm converts a *sgbucket.FeedEvent (or nil) pushed on a queue to a FeedEv term.
func (e *Engine) feedEvTerm(st *State, v Value) Term {
	e.needFeedEv = true
	if iv, ok := v.(VIface); ok {
		v = iv.V
	}
	switch p := v.(type) {
	case VNil:
		return mkT("FE_NIL", SFeedEv)
	case VPtr:
		if s, ok := e.load(st, p).(VStruct); ok {
			return e.feedEvOfStruct(st, s)
		}
	}
	return e.fresh(st, "feedev", SFeedEv)
}

// sgbucket.FeedEvent fields: TimeReceived, Key, Value, Cas, RevNo, Flags, Expiry, CollectionID, VbNo, Opcode, DataType, Synchronous
func (e *Engine) feedEvOfStruct(st *State, s VStruct) Term {
	t := e.feedEventType()
	if t == nil {
		return e.fresh(st, "feedev", SFeedEv)
	}
	get := func(name string, sort *Sort) Term {
		for i := 0; i < t.NumFields(); i++ {
			if t.Field(i).Name() == name && i < len(s.F) {
				if sv, ok := s.F[i].(VSym); ok && sv.T.Sort == sort {
					return sv.T
				}
			}
		}
		return e.fresh(st, "fe."+name, sort)
	}
	return App(SFeedEv, "mkFE", get("Opcode", SInt), get("Key", SBytes), get("Value", SBytes), get("Cas", SInt),
		get("Expiry", SInt), get("DataType", SInt), get("RevNo", SInt), get("CollectionID", SInt))
}

func (e *Engine) feedEventType() *types.Struct {
	for _, p := range e.prog.AllPackages() {
		if p.Pkg.Path() == "github.com/couchbase/sg-bucket" {
			if tn := p.Pkg.Scope().Lookup("FeedEvent"); tn != nil {
				return tn.Type().Underlying().(*types.Struct)
			}
		}
	}
	return nil
}

func encodeValueWithXattrs(e *Engine, st *State, args []Value, depth int, pos string, k func(*State, Value)) {
	// injective in (body, xattr list); the list is built from the xattr map by a range loop: abstracted
	body, _ := args[0].(VSym)
	k(st, sym(App(SBytes, "encvx", body.T, e.fresh(st, "xattrlist", SInt))))
}

// hookPostNewEvent records the event a writer posts (ghost), then runs the real body.
func hookPostNewEvent(e *Engine, st *State, args []Value, depth int, pos string, k func(*State, Value)) {
	if _, isNil := args[1].(VNil); isNil {
		// no event to post: whatever the real body does with nil (return early, or dereference it) is what happens
		if f := e.findMethod("Collection", "postNewEvent"); f != nil {
			e.callFunction(st, f, args, nil, depth, k)
			return
		}
	}
	ev, ok := args[1].(VPtr)
	terms := map[string]Term{}
	if ok {
		if s, ok := e.load(st, ev).(VStruct); ok {
			names := []string{"key", "value", "isDeletion", "isJSON", "xattrs", "cas", "exp", "revSeqNo"}
			for i, n := range names {
				if i < len(s.F) {
					if sv, ok := s.F[i].(VSym); ok {
						terms[n] = sv.T
					}
				}
			}
		}
	}
	st.addTrace(TraceEv{Kind: "post", Pos: pos, Terms: terms, Args: args})
	if e.inlinePost {
		fn := e.pkg.Prog.FuncValue(e.pkg.Type("Collection").Object().(*types.TypeName).Type().(*types.Named).Method(0))
		_ = fn
	}
	if f := e.findMethod("Collection", "postNewEvent"); f != nil && e.inlinePost {
		e.callFunction(st, f, args, nil, depth, k)
		return
	}
	k(st, nil)
}

func (e *Engine) findMethod(typ, name string) *ssa.Function {
	t := e.pkg.Type(typ)
	if t == nil {
		return nil
	}
	named := t.Type().(*types.Named)
	for _, T := range []types.Type{named, types.NewPointer(named)} {
		ms := e.prog.MethodSets.MethodSet(T)
		for i := 0; i < ms.Len(); i++ {
			if ms.At(i).Obj().Name() == name {
				return e.prog.MethodValue(ms.At(i))
			}
		}
	}
	return nil
}

// ---------------------------------------------------------------------------
// cursors (sql.Rows): handled by the cursor rule in loops.go

func sqlQueryModel(e *Engine, st *State, args []Value, depth int, pos string, k func(*State, Value)) {
	handle := handleKind(args[0])
	text, ok := e.sqlText(st, args[1])
	var stmt *SQLStmt
	if ok {
		e.sqlTexts[text] = true
		var err error
		stmt, err = parseSQL(text)
		if err != nil {
			st.incomplete = "SQL outside the modelled subset at " + pos + ": " + err.Error()
			e.endPath(st)
			return
		}
	} else {
		text = "<dynamic>"
	}
	var params *sqlParams
	if len(args) > 2 {
		params = e.buildParams(st, e.sliceElems(st, args[2]))
	} else {
		params = &sqlParams{named: map[string]SQLVal{}}
	}
	info := &StmtInfo{Stmt: stmt, Handle: handle, Kind: "select"}
	if stmt != nil {
		info.Table = stmt.Table
		c := &evalCtx{e: e, st: st, params: params}
		coll, _, hasColl, _, _ := c.keyOf(stmt.Where)
		if hasColl && !coll.Any {
			info.CollTerm = coll.T
		}
		if stmt.Kind == "with" {
			info.Kind = "with"
		}
	}
	e.recordStmt(st, info, text, pos)
	e.forkDBError(st, func(st *State, err Value) {
		k(st, VTuple{[]Value{VNil{}, err}})
	}, func(st *State) {
		ro := &RowsObj{Stmt: stmt, Params: params, Docs: st.g.Docs, ID: e.nextID()}
		info.Cursor = ro
		k(st, VTuple{[]Value{VAbs{Kind: "rows", ID: ro.ID, Data: ro}, VNil{}}})
	})
}

func sqlRowsClose(e *Engine, st *State, args []Value, depth int, pos string, k func(*State, Value)) {
	e.forkDBError(st, func(st *State, err Value) { k(st, err) }, func(st *State) { k(st, VNil{}) })
}

func sqlRowsErr(e *Engine, st *State, args []Value, depth int, pos string, k func(*State, Value)) {
	e.forkDBError(st, func(st *State, err Value) { k(st, err) }, func(st *State) { k(st, VNil{}) })
}

func sqlRowsColumns(e *Engine, st *State, args []Value, depth int, pos string, k func(*State, Value)) {
	k(st, VTuple{[]Value{VUnknown{Typ: nil, Note: "columns"}, VNil{}}})
}

// xmarshalFacts: instances of A-JSON for a marshalled xattr map.
func (e *Engine) xmarshalFacts(st *State, xm, m, nilT Term) {
	empty := constArr(SStr, SBytes, mkT("NOX", SBytes))
	st.fact(Not(Eq(xm, nullB)))
	st.fact(App(SBool, "xok", xm))
	st.fact(Gt(App(SInt, "b.len", xm), IntLit(0)))
	st.fact(Implies(Not(nilT), And(Eq(App(SXMap, "xmap", xm), m), Not(App(SBool, "xmapnil", xm)))))
	st.fact(Implies(nilT, And(Eq(App(SXMap, "xmap", xm), empty), App(SBool, "xmapnil", xm))))
}
