package main

import (
	"fmt"
	"go/types"
	"sort"
	"strings"

	"golang.org/x/tools/go/ssa"
)

// symRange: iteration over a symbolic (SMT-array) map, handled with the map-range loop rule:
//   entry:  Inv(it0, it0, {}) is an obligation;
//   header: the map, the ghost set `visited` and everything the body assigns are havocked, Inv is assumed;
//   body:   entered with an arbitrary key that is present and not yet visited; at the back edge
//           Inv(it, it0, visited+{k}) is an obligation and the path ends;
//   exit:   every present key has been visited.
type symRange struct {
	cell    int
	m0      Term
	visited Term
	key     Term
	keySort *Sort
	valSort *Sort
	absent  Term
	ordinal int
	fn      *ssa.Function
	inBody  bool
}

func constArr(ks, vs *Sort, v Term) Term {
	return mkT(fmt.Sprintf("((as const (Array %s %s)) %s)", ks.Name, vs.Name, v.S), canonSort(fmt.Sprintf("(Array %s %s)", ks.Name, vs.Name)))
}

func (e *Engine) symRangeInit(st *State, fr *Frame, in *ssa.Range, obj *MapObj, cell int) *symRange {
	eff := obj.Arr
	if obj.NilT.S != "" && !obj.NilT.IsFalse() {
		eff = Ite(obj.NilT, constArr(obj.KeySort, obj.ValSort, obj.Absent), obj.Arr)
	}
	return &symRange{cell: cell, m0: eff, keySort: obj.KeySort, valSort: obj.ValSort, absent: obj.Absent,
		ordinal: loopOrdinal(in), fn: fr.fn}
}

// loopOrdinal numbers the range/for loops of a function in source order (1-based) by the position of the Range.
func loopOrdinal(in ssa.Instruction) int {
	fn := in.Parent()
	var poss []int
	for _, b := range fn.Blocks {
		for _, i := range b.Instrs {
			switch i.(type) {
			case *ssa.Range:
				poss = append(poss, int(i.Pos()))
			}
		}
	}
	sort.Ints(poss)
	for n, p := range poss {
		if p == int(in.Pos()) {
			return n + 1
		}
	}
	return 0
}

// loopBlocks returns the natural loop of header (blocks that can reach the header again without leaving it).
func loopBlocks(header *ssa.BasicBlock) map[*ssa.BasicBlock]bool {
	reach := map[*ssa.BasicBlock]bool{}
	var fwd func(b *ssa.BasicBlock)
	fwd = func(b *ssa.BasicBlock) {
		if reach[b] {
			return
		}
		reach[b] = true
		for _, s := range b.Succs {
			fwd(s)
		}
	}
	for _, s := range header.Succs {
		fwd(s)
	}
	in := map[*ssa.BasicBlock]bool{header: true}
	// b is in the loop if header is reachable from b (within reach) - compute backwards from header
	var back func(b *ssa.BasicBlock)
	back = func(b *ssa.BasicBlock) {
		for _, p := range b.Preds {
			if reach[p] && !in[p] && header.Dominates(p) {
				in[p] = true
				back(p)
			}
		}
	}
	back(header)
	return in
}

func (e *Engine) loopInvariants(fn *ssa.Function, ordinal int) []Clause {
	name := fnName(fn)
	// closures: contracts are keyed by the enclosing named function
	for f := fn; f != nil; f = f.Parent() {
		name = fnName(f)
		if ct := e.contracts.lookup(name); ct != nil {
			if fn.Parent() != nil {
				// loops inside a closure are numbered per closure: key "closureIndex.ordinal" is not supported; use flat numbering
			}
			if cls, ok := ct.Loops[ordinal]; ok && f == fn {
				return cls
			}
			if f != fn {
				if cls, ok := ct.Loops[1000*closureIndex(fn)+ordinal]; ok {
					return cls
				}
			}
		}
	}
	return nil
}

// closureIndex: $N suffix of an anonymous function name.
func closureIndex(fn *ssa.Function) int {
	n := fn.Name()
	if i := strings.LastIndex(n, "$"); i >= 0 {
		var k int
		fmt.Sscanf(n[i+1:], "%d", &k)
		return k
	}
	return 0
}

// evalInvariant evaluates loop-invariant clauses with it/it0/visited bound.
func (e *Engine) evalInvariant(st *State, cls []Clause, it, it0, visited Term, assume bool) []Term {
	var out []Term
	for _, cl := range cls {
		env := &rEnv{e: e, pre: st, post: st, vars: map[string]Value{"it": sym(it), "it0": sym(it0), "visited": sym(visited)},
			typs: map[string]types.Type{}, specs: e.contracts.specs}
		if assume {
			env.pol = -1
			env.assuming = true
		} else {
			env.pol = 1
		}
		t := env.term(cl.Node)
		if env.err != nil {
			st.incomplete = "loop invariant does not evaluate: " + env.err.Error()
			return nil
		}
		out = append(out, t)
	}
	return out
}

func (e *Engine) symRangeNext(st *State, fr *Frame, in *ssa.Next, it *rangeIter) bool {
	sr := it.sym
	cls := e.loopInvariants(fr.fn, sr.ordinal)
	if cls == nil {
		st.incomplete = fmt.Sprintf("range over a symbolic map without a loop invariant (loop %d of %s) at %s", sr.ordinal, fr.fn.Name(), e.pos(in.Pos()))
		e.endPath(st)
		return false
	}
	tt := in.Type().(*types.Tuple)
	obj, _ := st.heap[sr.cell].(*MapObj)
	stateKey := fmt.Sprintf("symiter/%d/%d", fr.id, in.Pos())
	if st.visits[stateKey] > 0 {
		// back edge: the invariant must hold again with the key added to visited
		cur := obj.Arr
		goals := e.evalInvariant(st, cls, cur, sr.m0, Store(st.loopVisited[stateKey], st.loopKey[stateKey], TTrue), false)
		for i, g := range goals {
			e.addSideObl(st, cls[i], "preserved", g)
		}
		return false // path ends at the cut point
	}
	st.visits[stateKey] = 1
	// entry obligation
	emptySet := constArr(sr.keySort, SBool, TFalse)
	for i, g := range e.evalInvariant(st, cls, sr.m0, sr.m0, emptySet, false) {
		e.addSideObl(st, cls[i], "entry", g)
	}
	// havoc what the loop assigns
	arrSort := canonSort(fmt.Sprintf("(Array %s %s)", sr.keySort.Name, sr.valSort.Name))
	cur := e.fresh(st, "it", arrSort)
	visited := e.fresh(st, "visited", canonSort(fmt.Sprintf("(Array %s Bool)", sr.keySort.Name)))
	nobj := obj.clone()
	nobj.Arr = cur
	nobj.NilT = TFalse
	nobj.Fresh = false
	st.heap[sr.cell] = nobj
	e.havocLoopTargets(st, fr, in.Block())
	for _, t := range e.evalInvariant(st, cls, cur, sr.m0, visited, true) {
		st.assume(t)
	}
	if st.incomplete != "" {
		e.endPath(st)
		return false
	}
	// exit path
	stExit := st.clone()
	{
		curE, visE, absent, vs := cur, visited, sr.absent, sr.valSort
		stExit.addInst(sr.keySort, func(s *State, k Term) Term {
			return Implies(Not(Eq(Select(curE, k, vs), absent)), Select(visE, k, SBool))
		})
	}
	// body path
	k := e.fresh(st, "rangekey", sr.keySort)
	st.assume(Not(Eq(Select(cur, k, sr.valSort), sr.absent)))
	st.assume(Not(Select(visited, k, SBool)))
	if st.loopVisited == nil {
		st.loopVisited = map[string]Term{}
		st.loopKey = map[string]Term{}
	} else {
		nv := make(map[string]Term, len(st.loopVisited))
		nk := make(map[string]Term, len(st.loopKey))
		for a, b := range st.loopVisited {
			nv[a] = b
		}
		for a, b := range st.loopKey {
			nk[a] = b
		}
		st.loopVisited, st.loopKey = nv, nk
	}
	st.loopVisited[stateKey] = visited
	st.loopKey[stateKey] = k
	var val Value = sym(Select(cur, k, sr.valSort))
	if sr.valSort == SJson {
		val = VAbs{Kind: "json", ID: e.nextID(), Data: Select(cur, k, sr.valSort)}
	}
	// run the exit path first (it continues after the loop), then the body path (ends at the back edge)
	b := in.Block()
	idx := 0
	for i, ins := range b.Instrs {
		if ins == in {
			idx = i
		}
	}
	fr2regs := fr.regs
	fr.regs[in] = VTuple{[]Value{sym(TFalse), e.zeroOf(tt.At(1).Type()), e.zeroOf(tt.At(2).Type())}}
	e.runFrom(stExit, fr, b, idx+1)
	fr.regs = fr2regs
	fr.regs[in] = VTuple{[]Value{sym(TTrue), sym(k), val}}
	return true
}

// havocLoopTargets havocks heap cells and maps assigned inside the loop whose header is `header`, and header phis.
func (e *Engine) havocLoopTargets(st *State, fr *Frame, header *ssa.BasicBlock) {
	blocks := loopBlocks(header)
	for b := range blocks {
		for _, ins := range b.Instrs {
			switch x := ins.(type) {
			case *ssa.Store:
				if v, ok := fr.regs[x.Addr]; ok {
					if p, ok := v.(VPtr); ok {
						et := x.Addr.Type().(*types.Pointer).Elem()
						e.store(st, p, e.havoc(st, et, "loopvar"))
					}
				} else if g, ok := x.Addr.(*ssa.Global); ok {
					cell := e.globalCell(st, g)
					st.heap[cell] = e.havoc(st, g.Type().(*types.Pointer).Elem(), "loopglobal")
				}
			case *ssa.MapUpdate:
				if v, ok := fr.regs[x.Map]; ok {
					e.havocMap(st, v)
				}
			case *ssa.Call:
				if bi, ok := x.Call.Value.(*ssa.Builtin); ok && bi.Name() == "delete" {
					if v, ok := fr.regs[x.Call.Args[0]]; ok {
						e.havocMap(st, v)
					}
				}
			}
		}
	}
	for _, ins := range header.Instrs {
		if phi, ok := ins.(*ssa.Phi); ok {
			fr.regs[phi] = e.havoc(st, phi.Type(), "loopphi")
		}
	}
}

func (e *Engine) havocMap(st *State, v Value) {
	mv, ok := v.(VMap)
	if !ok {
		return
	}
	obj, ok := st.heap[mv.Cell].(*MapObj)
	if !ok {
		return
	}
	n := obj.clone()
	if n.Struct {
		n.Entries = map[string]Value{}
		n.KeyTerms = map[string]Term{}
		n.Fresh = false
		n.Havocked = true
	} else {
		n.Arr = e.fresh(st, "maphavoc", obj.Arr.Sort)
		n.Fresh = false
	}
	st.heap[mv.Cell] = n
}

// addSideObl records an obligation generated in the middle of a path (loop invariants, call-site requires).
func (e *Engine) addSideObl(st *State, cl Clause, phase string, goal Term) {
	tmp := st.clone()
	e.instantiateAll(tmp, nil, []Term{goal})
	e.sideObls = append(e.sideObls, sideObl{id: cl.Name + "." + phase, kind: "invariant", clause: cl.Src, props: cl.Props, line: cl.Line,
		header: e.scriptHeader(tmp, nil), goal: goal})
}

func sqlRowsNext(e *Engine, st *State, args []Value, depth int, pos string, k func(*State, Value)) {
	st.incomplete = "cursor loop without a loop invariant at " + pos
	e.endPath(st)
}

func sqlRowsScan(e *Engine, st *State, args []Value, depth int, pos string, k func(*State, Value)) {
	st.incomplete = "cursor scan without a loop invariant at " + pos
	e.endPath(st)
}

func (e *Engine) callByContract(st *State, fn *ssa.Function, ct *Contract, args []Value, depth int, pos string, k func(*State, Value)) {
	// filled in later: assert requires, havoc, assume ensures
	e.callFunction(st, fn, args, nil, depth, k)
}
