package main

import (
	"golang.org/x/tools/go/ssa"
)

// symRange: iteration over a symbolic (SMT-array) map. Filled in by the loop rule.
type symRange struct {
	cell    int
	m0      Term
	visited Term
	nilT    Term
}

func (e *Engine) symRangeInit(st *State, fr *Frame, in *ssa.Range, obj *MapObj, cell int) *symRange {
	return &symRange{cell: cell, m0: obj.Arr, nilT: obj.NilT}
}

func (e *Engine) symRangeNext(st *State, fr *Frame, in *ssa.Next, it *rangeIter) bool {
	st.incomplete = "range over a symbolic map without a loop invariant at " + e.pos(in.Pos())
	e.endPath(st)
	return false
}

func sqlRowsNext(e *Engine, st *State, args []Value, depth int, pos string, k func(*State, Value)) {
	st.incomplete = "cursor loop without a loop invariant at " + pos
	e.endPath(st)
}

func sqlRowsScan(e *Engine, st *State, args []Value, depth int, pos string, k func(*State, Value)) {
	st.incomplete = "cursor scan without a loop invariant at " + pos
	e.endPath(st)
}

func (e *Engine) callByContract(st *State, fn *ssa.Function, ct *Contract, args []Value, depth int, pos string, k func(*State, Value)) {
	// filled in later: assert requires, havoc, assume ensures
	e.callFunction(st, fn, args, nil, depth, k)
}
