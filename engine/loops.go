package main

import (
	"fmt"
	"go/constant"
	"go/token"
	"go/types"
	"sort"
	"strings"

	"golang.org/x/tools/go/ssa"
)

// symRange: iteration over a symbolic (SMT-array) map, handled with the map-range loop rule:
//
//	entry:  Inv(it0, it0, {}) is an obligation;
//	header: the map, the ghost set `visited` and everything the body assigns are havocked, Inv is assumed;
//	body:   entered with an arbitrary key that is present and not yet visited; at the back edge
//	        Inv(it, it0, visited+{k}) is an obligation and the path ends;
//	exit:   every present key has been visited.
type symRange struct {
	cell    int
	m0      Term
	visited Term
	key     Term
	keySort *Sort
	valSort *Sort
	absent  Term
	ordinal int
	fn      *ssa.Function
	inBody  bool
}

func constArr(ks, vs *Sort, v Term) Term {
	return mkT(fmt.Sprintf("((as const (Array %s %s)) %s)", ks.Name, vs.Name, v.S), canonSort(fmt.Sprintf("(Array %s %s)", ks.Name, vs.Name)))
}

func (e *Engine) symRangeInit(st *State, fr *Frame, in *ssa.Range, obj *MapObj, cell int) *symRange {
	eff := obj.Arr
	if obj.NilT.S != "" && !obj.NilT.IsFalse() {
		eff = Ite(obj.NilT, constArr(obj.KeySort, obj.ValSort, obj.Absent), obj.Arr)
	}
	return &symRange{cell: cell, m0: eff, keySort: obj.KeySort, valSort: obj.ValSort, absent: obj.Absent,
		ordinal: loopOrdinal(in), fn: fr.fn}
}

// loopHeaders lists the loop headers of a function (blocks with a back edge), ordered by source position.
func loopHeaders(fn *ssa.Function) []*ssa.BasicBlock {
	var hs []*ssa.BasicBlock
	for _, b := range fn.Blocks {
		for _, p := range b.Preds {
			if b.Dominates(p) {
				hs = append(hs, b)
				break
			}
		}
	}
	pos := func(b *ssa.BasicBlock) int {
		best := 0
		for _, in := range b.Instrs {
			if p := int(in.Pos()); p > 0 && (best == 0 || p < best) {
				best = p
			}
		}
		if best == 0 {
			return b.Index * 1000000000
		}
		return best
	}
	sort.Slice(hs, func(i, j int) bool { return pos(hs[i]) < pos(hs[j]) })
	return hs
}

// loopOrdinal: 1-based number of the loop (in source order) whose header contains `in` (or is the successor
// of the block containing a Range instruction).
func loopOrdinal(in ssa.Instruction) int {
	b := in.Block()
	if _, ok := in.(*ssa.Range); ok && len(b.Succs) == 1 {
		b = b.Succs[0]
	}
	return headerOrdinal(b)
}

func headerOrdinal(b *ssa.BasicBlock) int {
	for i, h := range loopHeaders(b.Parent()) {
		if h == b {
			return i + 1
		}
	}
	return 0
}

// loopBlocks returns the natural loop of header (blocks that can reach the header again without leaving it).
func loopBlocks(header *ssa.BasicBlock) map[*ssa.BasicBlock]bool {
	reach := map[*ssa.BasicBlock]bool{}
	var fwd func(b *ssa.BasicBlock)
	fwd = func(b *ssa.BasicBlock) {
		if reach[b] {
			return
		}
		reach[b] = true
		for _, s := range b.Succs {
			fwd(s)
		}
	}
	for _, s := range header.Succs {
		fwd(s)
	}
	in := map[*ssa.BasicBlock]bool{header: true}
	// b is in the loop if header is reachable from b (within reach) - compute backwards from header
	var back func(b *ssa.BasicBlock)
	back = func(b *ssa.BasicBlock) {
		for _, p := range b.Preds {
			if reach[p] && !in[p] && header.Dominates(p) {
				in[p] = true
				back(p)
			}
		}
	}
	back(header)
	return in
}

func (e *Engine) loopInvariants(fn *ssa.Function, ordinal int) []Clause {
	name := fnName(fn)
	// closures: contracts are keyed by the enclosing named function
	for f := fn; f != nil; f = f.Parent() {
		name = fnName(f)
		if ct := e.contracts.lookup(name); ct != nil {
			if fn.Parent() != nil {
				// loops inside a closure are numbered per closure: key "closureIndex.ordinal" is not supported; use flat numbering
			}
			if cls, ok := ct.Loops[ordinal]; ok && f == fn {
				return cls
			}
			if f != fn {
				if cls, ok := ct.Loops[1000*closureIndex(fn)+ordinal]; ok {
					return cls
				}
			}
		}
	}
	return nil
}

// closureIndex: $N suffix of an anonymous function name.
func closureIndex(fn *ssa.Function) int {
	n := fn.Name()
	if i := strings.LastIndex(n, "$"); i >= 0 {
		var k int
		fmt.Sscanf(n[i+1:], "%d", &k)
		return k
	}
	return 0
}

// evalInvariant evaluates loop-invariant clauses with it/it0/visited bound.
func (e *Engine) evalInvariant(st *State, cls []Clause, it, it0, visited Term, assume bool) []Term {
	var out []Term
	for _, cl := range cls {
		env := &rEnv{e: e, pre: st, post: st, vars: map[string]Value{"it": sym(it), "it0": sym(it0), "visited": sym(visited)},
			typs: map[string]types.Type{}, specs: e.contracts.specs}
		if assume {
			env.pol = -1
			env.assuming = true
		} else {
			env.pol = 1
		}
		t := env.term(cl.Node)
		if env.err != nil {
			st.incomplete = "loop invariant does not evaluate: " + env.err.Error()
			return nil
		}
		out = append(out, t)
	}
	return out
}

// autoCandidates: the candidate invariants in use for a map-range loop that has none of its own. All candidates that
// evaluate over this map's sorts start out in use; verifyFunction drops those whose entry/preservation obligation
// fails and runs the function again, so only inductive candidates are ever assumed.
func (e *Engine) autoCandidates(st *State, fn *ssa.Function, sr *symRange) []Clause {
	if e.contracts == nil || e.autoLoop == nil {
		return nil
	}
	key := fmt.Sprintf("%s.loop%d", fnName(fn), sr.ordinal)
	idxs, ok := e.autoLoop[key]
	if !ok {
		for i, c := range e.contracts.candidates {
			probe := st.clone()
			emptySet := constArr(sr.keySort, SBool, TFalse)
			if ts := e.evalInvariant(probe, []Clause{c}, sr.m0, sr.m0, emptySet, false); ts != nil && probe.incomplete == "" {
				idxs = append(idxs, i)
			}
		}
		e.autoLoop[key] = idxs
	}
	out := []Clause{{Kind: "invariant", Node: mustParseRSL("true"), Src: "true", Name: "auto:" + key + "#true"}}
	for _, i := range idxs {
		c := e.contracts.candidates[i]
		c.Name = fmt.Sprintf("auto:%s#%d", key, i)
		out = append(out, c)
	}
	return out
}

func (e *Engine) symRangeNext(st *State, fr *Frame, in *ssa.Next, it *rangeIter) bool {
	sr := it.sym
	cls := e.loopInvariants(fr.fn, sr.ordinal)
	if cls == nil {
		cls = e.autoCandidates(st, fr.fn, sr)
	}
	if cls == nil {
		st.incomplete = fmt.Sprintf("range over a symbolic map without a loop invariant (loop %d of %s) at %s", sr.ordinal, fr.fn.Name(), e.pos(in.Pos()))
		e.endPath(st)
		return false
	}
	tt := in.Type().(*types.Tuple)
	obj, _ := st.heap[sr.cell].(*MapObj)
	stateKey := fmt.Sprintf("symiter/%d/%d", fr.id, in.Pos())
	if st.visits[stateKey] > 0 {
		// back edge: the invariant must hold again with the key added to visited
		cur := obj.Arr
		goals := e.evalInvariant(st, cls, cur, sr.m0, Store(st.loopVisited[stateKey], st.loopKey[stateKey], TTrue), false)
		for i, g := range goals {
			e.addSideObl(st, cls[i], "preserved", g)
		}
		return false // path ends at the cut point
	}
	st.visits[stateKey] = 1
	// entry obligation
	emptySet := constArr(sr.keySort, SBool, TFalse)
	for i, g := range e.evalInvariant(st, cls, sr.m0, sr.m0, emptySet, false) {
		e.addSideObl(st, cls[i], "entry", g)
	}
	// havoc what the loop assigns
	arrSort := canonSort(fmt.Sprintf("(Array %s %s)", sr.keySort.Name, sr.valSort.Name))
	cur := sr.m0
	if loopWritesMapOfType(in.Block(), obj.Typ) {
		cur = e.fresh(st, "it", arrSort)
	}
	visited := e.fresh(st, "visited", canonSort(fmt.Sprintf("(Array %s Bool)", sr.keySort.Name)))
	_ = e.havocLoopTargets(st, fr, in.Block())
	nobj := obj.clone()
	nobj.Arr = cur
	nobj.NilT = TFalse
	nobj.Fresh = false
	st.heap[sr.cell] = nobj
	for _, t := range e.evalInvariant(st, cls, cur, sr.m0, visited, true) {
		st.assume(t)
	}
	if st.incomplete != "" {
		e.endPath(st)
		return false
	}
	// exit path
	stExit := st.clone()
	{
		curE, visE, absent, vs := cur, visited, sr.absent, sr.valSort
		stExit.addInst(sr.keySort, func(s *State, k Term) Term {
			return Implies(Not(Eq(Select(curE, k, vs), absent)), Select(visE, k, SBool))
		})
	}
	// body path
	k := e.fresh(st, "rangekey", sr.keySort)
	st.assume(Not(Eq(Select(cur, k, sr.valSort), sr.absent)))
	st.assume(Not(Select(visited, k, SBool)))
	if st.loopVisited == nil {
		st.loopVisited = map[string]Term{}
		st.loopKey = map[string]Term{}
	} else {
		nv := make(map[string]Term, len(st.loopVisited))
		nk := make(map[string]Term, len(st.loopKey))
		for a, b := range st.loopVisited {
			nv[a] = b
		}
		for a, b := range st.loopKey {
			nk[a] = b
		}
		st.loopVisited, st.loopKey = nv, nk
	}
	st.loopVisited[stateKey] = visited
	st.loopKey[stateKey] = k
	var val Value = sym(Select(cur, k, sr.valSort))
	if sr.valSort == SJson {
		val = VAbs{Kind: "json", ID: e.nextID(), Data: Select(cur, k, sr.valSort)}
	}
	// run the exit path first (it continues after the loop), then the body path (ends at the back edge)
	b := in.Block()
	idx := 0
	for i, ins := range b.Instrs {
		if ins == in {
			idx = i
		}
	}
	stExit.wregs(fr)[in] = VTuple{[]Value{sym(TFalse), e.zeroOf(tt.At(1).Type()), e.zeroOf(tt.At(2).Type())}}
	e.runFrom(stExit, fr, b, idx+1)
	st.wregs(fr)[in] = VTuple{[]Value{sym(TTrue), sym(k), val}}
	return true
}

// havocLoopTargets havocks heap cells and maps assigned inside the loop whose header is `header`, and header phis.
// ptrChoice is a pointer-typed location havocked by a loop rule: it may be nil, a fresh object, or alias an input.
type ptrChoice struct {
	set     func(st *State, v Value)
	options []Value
}

func (e *Engine) ptrOptions(st *State, fr *Frame, t types.Type, hint string) []Value {
	opts := []Value{VNil{}, e.havoc(st, t, hint)}
	add := func(v Value, vt types.Type) {
		if p, ok := v.(VPtr); ok && types.Identical(vt, t) {
			for _, o := range opts {
				if op, ok := o.(VPtr); ok && op == p {
					return
				}
			}
			opts = append(opts, p)
		}
	}
	for _, p := range fr.fn.Params {
		add(st.rregs(fr)[p], p.Type())
	}
	for _, fv := range fr.fn.FreeVars {
		add(st.rregs(fr)[fv], fv.Type())
	}
	return opts
}

func (e *Engine) havocLoopTargets(st *State, fr *Frame, header *ssa.BasicBlock) []ptrChoice {
	var choices []ptrChoice
	isPtrToStruct := func(t types.Type) bool {
		if p, ok := t.Underlying().(*types.Pointer); ok {
			_, isS := p.Elem().Underlying().(*types.Struct)
			return isS
		}
		return false
	}
	blocks := loopBlocks(header)
	for b := range blocks {
		for _, ins := range b.Instrs {
			switch x := ins.(type) {
			case *ssa.Store:
				if v, ok := st.rregs(fr)[x.Addr]; ok {
					if p, ok := v.(VPtr); ok {
						et := x.Addr.Type().(*types.Pointer).Elem()
						if isPtrToStruct(et) {
							pp := p
							choices = append(choices, ptrChoice{set: func(s *State, v Value) { e.store(s, pp, v) },
								options: e.ptrOptions(st, fr, et, "loopvar")})
						} else {
							e.store(st, p, e.havoc(st, et, "loopvar"))
						}
					}
				} else if g, ok := x.Addr.(*ssa.Global); ok {
					cell := e.globalCell(st, g)
					st.heap[cell] = e.havoc(st, g.Type().(*types.Pointer).Elem(), "loopglobal")
				}
			case *ssa.MakeInterface:
				// a pointer to a field of an outer variable escapes into an interface (e.g. Scan(&e.key)):
				// the callee may assign through it
				if fa, ok := x.X.(*ssa.FieldAddr); ok {
					if v, ok := st.rregs(fr)[fa.X]; ok {
						if p, ok := v.(VPtr); ok {
							ft := fa.Type().(*types.Pointer).Elem()
							e.store(st, VPtr{Cell: p.Cell, Path: fmt.Sprintf("%s.%d", p.Path, fa.Field)}, e.havoc(st, ft, "escaped"))
						}
					}
				}
			case *ssa.MapUpdate:
				if v, ok := st.rregs(fr)[x.Map]; ok {
					e.havocMap(st, v)
				}
			case *ssa.Call:
				if bi, ok := x.Call.Value.(*ssa.Builtin); ok && bi.Name() == "delete" {
					if v, ok := st.rregs(fr)[x.Call.Args[0]]; ok {
						e.havocMap(st, v)
					}
				}
			}
		}
	}
	for _, ins := range header.Instrs {
		if phi, ok := ins.(*ssa.Phi); ok {
			if isPtrToStruct(phi.Type()) {
				ph := phi
				choices = append(choices, ptrChoice{set: func(s *State, v Value) { s.wregs(fr)[ph] = v },
					options: e.ptrOptions(st, fr, phi.Type(), "loopphi")})
			} else {
				hv := e.havoc(st, phi.Type(), "loopphi")
				st.wregs(fr)[phi] = hv
				// a counter (initial constant c, only ever advanced by a positive constant, as in the index of a
				// range loop) is never below c: machine integers are treated as mathematical ones (assumption A-INT)
				if c, ok := counterStart(phi); ok {
					if sv, ok := hv.(VSym); ok && sv.T.Sort == SInt {
						st.assume(Ge(sv.T, IntLit(c)))
					}
				}
			}
		}
	}
	return choices
}

func (e *Engine) havocMap(st *State, v Value) {
	mv, ok := v.(VMap)
	if !ok {
		return
	}
	obj, ok := st.heap[mv.Cell].(*MapObj)
	if !ok {
		return
	}
	n := obj.clone()
	if n.Struct {
		n.Entries = map[string]Value{}
		n.KeyTerms = map[string]Term{}
		n.Fresh = false
		n.Havocked = true
	} else {
		n.Arr = e.fresh(st, "maphavoc", obj.Arr.Sort)
		n.Fresh = false
	}
	st.heap[mv.Cell] = n
}

// sideClone returns a snapshot of st shared by all side obligations raised at the same point of the same path.
func (e *Engine) sideClone(st *State) *State {
	if e.lastSideSrc == st && e.lastSidePC == len(st.pc) && e.lastSideTrace == len(st.trace) && e.lastSideClone != nil {
		return e.lastSideClone
	}
	e.lastSideSrc, e.lastSidePC, e.lastSideTrace = st, len(st.pc), len(st.trace)
	e.lastSideClone = st.clone()
	return e.lastSideClone
}

// addReachObl: a must-fail obligation "false" at a loop back edge (refuted = the body is reachable).
func (e *Engine) addReachObl(st *State, cl Clause, fn string) {
	id := fn + ".loop-body-reachable@" + fmt.Sprint(cl.Line)
	if e.reachCount == nil {
		e.reachCount = map[string]int{}
	}
	e.reachCount[id]++
	if e.reachCount[id] > 60 {
		return // a few witnesses are enough for the vacuity guard
	}
	e.sideObls = append(e.sideObls, sideObl{id: id, kind: "mustfail", clause: "false (vacuity guard: loop body reachable)",
		props: cl.Props, line: cl.Line, st: e.sideClone(st), goal: TFalse})
}

// addSideObl records an obligation generated in the middle of a path (loop invariants, call-site requires).
func (e *Engine) addSideObl(st *State, cl Clause, phase string, goal Term) {
	so := sideObl{id: cl.Name + "." + phase, kind: "invariant", clause: cl.Src, props: cl.Props, line: cl.Line, goal: goal}
	if !goal.IsTrue() {
		so.st = e.sideClone(st)
	}
	e.sideObls = append(e.sideObls, so)
}

// Cursor rule: rows.Next() yields "no more rows" or an arbitrary row that satisfies the statement's WHERE
// (a Skolem row id constrained by present && where); rows.Scan assigns the selected expressions of that row.
// Order and multiplicity of the rows are statement-level obligations (cursorWhere / cursorOrderBy in contracts).
func sqlRowsNext(e *Engine, st *State, args []Value, depth int, pos string, k func(*State, Value)) {
	ra, ok := args[0].(VAbs)
	if !ok || ra.Kind != "rows" {
		if _, isnil := args[0].(VNil); isnil {
			e.panicPath(st, depth-1, "Next on nil *sql.Rows at "+pos)
			return
		}
		k(st, sym(e.fresh(st, "rows.next", SBool)))
		return
	}
	ro := ra.Data.(*RowsObj)
	st2 := st.clone()
	st2.addTrace(TraceEv{Kind: "rows.end", Pos: pos})
	k(st2, sym(TFalse))
	// a further row
	st.addTrace(TraceEv{Kind: "rows.next", Pos: pos})
	if ro.Stmt != nil && ro.Stmt.Kind == "select" && strings.EqualFold(ro.Stmt.Table, "documents") && len(ro.Stmt.Join) == 0 {
		id := e.fresh(st, "cursor.id", SDocId)
		c := &evalCtx{e: e, st: st, params: ro.Params, table: "documents"}
		c.row, c.id = Select(ro.Docs, id, SRow), id
		st.assume(rowPresent(c.row))
		st.assume(c.where(ro.Stmt.Where))
		if st.cursor == nil {
			st.cursor = map[int]Term{}
		} else {
			nc := make(map[int]Term, len(st.cursor))
			for a, b := range st.cursor {
				nc[a] = b
			}
			st.cursor = nc
		}
		st.cursor[ro.ID] = id
		st.lastCursor = id
		st.lastCursorDocs = ro.Docs
	}
	k(st, sym(TTrue))
}

func sqlRowsScan(e *Engine, st *State, args []Value, depth int, pos string, k func(*State, Value)) {
	ra, ok := args[0].(VAbs)
	if !ok || ra.Kind != "rows" {
		k(st, e.havoc(st, types.Universe.Lookup("error").Type(), "scanerr"))
		return
	}
	ro := ra.Data.(*RowsObj)
	dests := e.sliceElems(st, args[1])
	e.forkDBError(st, func(st *State, err Value) { k(st, err) }, func(st *State) {
		var cols []SQLVal
		if id, ok := st.cursor[ro.ID]; ok && ro.Stmt != nil {
			c := &evalCtx{e: e, st: st, params: ro.Params, table: "documents"}
			c.row, c.id = Select(ro.Docs, id, SRow), id
			for _, it := range ro.Stmt.Sel {
				if it.Star {
					cols = append(cols, SQLVal{Any: true})
				} else {
					cols = append(cols, c.eval(it.Expr))
				}
			}
		}
		st.addTrace(TraceEv{Kind: "rows.scan", Pos: pos})
		e.assignDests(st, cols, dests, pos)
		k(st, VNil{})
	})
}

// callByContract: modular call. The callee's requires become obligations at the call site, its declared frame
// (flag modifies=db) is havocked, results are unconstrained, and its ensures are assumed.
func (e *Engine) callByContract(st *State, fn *ssa.Function, ct *Contract, args []Value, depth int, pos string, k func(*State, Value)) {
	vars := map[string]Value{}
	typs := map[string]types.Type{}
	for i, p := range fn.Params {
		if i < len(args) {
			vars[p.Name()] = args[i]
			typs[p.Name()] = p.Type()
		}
	}
	pre := st.clone()
	var snap interface{}
	if len(args) > 0 {
		if p, ok := args[0].(VPtr); ok {
			if sv, ok := e.load(st, p).(VStruct); ok {
				snap = sv // value of the receiver at the time of the call
			}
		}
	}
	argNil := map[string]Term{}
	for i, a := range args {
		if iv, ok := a.(VIface); ok {
			a = iv.V
		}
		if p, ok := a.(VPtr); ok {
			argNil[fmt.Sprintf("targetnil%d", i)] = e.isNilTerm(st, e.load(st, p))
		}
	}
	st.addTrace(TraceEv{Kind: "call:" + ct.Short, Pos: pos, Args: args, Extra: snap, Terms: argNil})
	// requires at the call site
	envR := &rEnv{e: e, pre: pre, post: st, vars: copyVars(vars), typs: typs, specs: e.contracts.specs, pol: 1}
	for _, l := range ct.Lets {
		if !usesPost(l.Node) {
			envR.vars[l.Name] = envR.eval(l.Node)
		}
	}
	for ri, rq := range ct.Requires {
		g := envR.term(rq.Node)
		if debugReq {
			fmt.Printf("REQ %s at %s: %s  args0=%T %v\n", ct.Short, pos, g.S, args[0], args[0])
		}
		if envR.err != nil {
			st.incomplete = "callee precondition does not evaluate at " + pos + ": " + envR.err.Error()
			e.endPath(st)
			return
		}
		// obligation id: stable under edits that move lines (the callee's clause + the caller under verification)
		cl := rq
		if strings.HasPrefix(rq.Name, "requires@") {
			cl.Name = fmt.Sprintf("%s.requires%d", ct.Short, ri+1)
		}
		if len(rq.Props) == 0 {
			cl.Props = allProps(ct)
		}
		caller := e.curFn
		if cct := e.contracts.lookup(e.curFn); cct != nil {
			caller = cct.Short
		}
		e.addSideObl(st, cl, "in-"+sanitize(caller), g)
	}
	if w := ct.Flags["writes"]; w != "" {
		// heap locations the callee may assign (paths from its parameters): havocked
		for _, lv := range strings.Split(w, ",") {
			n, err := parseRSL(lv)
			if err != nil {
				st.incomplete = "bad writes flag " + lv
				continue
			}
			if !e.havocPath(st, fn, args, n) {
				st.incomplete = "cannot resolve writes=" + lv + " at " + pos
			}
		}
	}
	if op := ct.Flags["outparams"]; op != "" {
		// parameters of interface type that carry a pointer the callee assigns through (e.g. Get(key, &doc))
		for _, pn := range strings.Split(op, ",") {
			for i, p := range fn.Params {
				if p.Name() != pn || i >= len(args) {
					continue
				}
				if iv, ok := args[i].(VIface); ok {
					if pv, ok := iv.V.(VPtr); ok {
						if pt, ok := iv.Typ.(*types.Pointer); ok {
							hv := e.havoc(st, pt.Elem(), "out."+pn)
							if mv, ok := hv.(VMap); ok {
								// the callee may leave a map nil
								if obj, ok := st.heap[mv.Cell].(*MapObj); ok {
									n := obj.clone()
									n.NilT = e.fresh(st, "out."+pn+".isnil", SBool)
									st.heap[mv.Cell] = n
								}
							}
							if mv, ok := hv.(VMap); ok {
								argNil[fmt.Sprintf("outmap%d", i)] = e.mapIdent(st, mv.Cell)
							}
							e.store(st, pv, hv)
						}
					}
				}
			}
		}
	}
	if ct.Flags["modifies"] == "db" {
		e.havocDB(st, "after."+sanitize(ct.Short))
	}
	// results: each error result is either nil or an opaque error
	sig := fn.Signature
	n := sig.Results().Len()
	var finish func(st *State, i int, acc []Value)
	finish = func(st *State, i int, acc []Value) {
		if i == n {
			var ret Value
			switch n {
			case 0:
			case 1:
				ret = acc[0]
			default:
				ret = VTuple{acc}
			}
			// snapshot of pointed-to result structs at return time (later writes through the pointer do not change it)
			snaps := make([]Value, len(acc))
			for si, a := range acc {
				if p, ok := a.(VPtr); ok {
					if sv, ok := e.load(st, p).(VStruct); ok {
						snaps[si] = sv
					}
				}
			}
			st.addTrace(TraceEv{Kind: "ret:" + ct.Short, Pos: pos, Args: acc, Extra: snaps})
			env := &rEnv{e: e, pre: pre, post: st, vars: copyVars(vars), typs: typs, specs: e.contracts.specs, pol: -1, assuming: true}
			e.bindResults(env, fn, ret)
			for _, l := range ct.Lets {
				env.vars[l.Name] = env.eval(l.Node)
			}
			for _, cl := range ct.Ensures {
				if cl.On != "" || usesTrace(cl.Node, ct) {
					continue // clauses about the callee's own ghost trace say nothing in the caller's trace
				}
				t := env.term(cl.Node)
				if env.err != nil {
					env.err = nil // clause not evaluable in this context: not assumed
					continue
				}
				st.assume(t)
			}
			k(st, ret)
			return
		}
		rt := sig.Results().At(i).Type()
		if types.Identical(rt, types.Universe.Lookup("error").Type()) {
			s2 := st.clone()
			e.nextCell++
			opaque := VIface{Typ: sentinelType, V: VAbs{Kind: "sentinel", ID: e.nextCell, Data: "opaque error from " + ct.Short}}
			finish(s2, i+1, append(append([]Value{}, acc...), opaque))
			finish(st, i+1, append(append([]Value{}, acc...), VNil{}))
			return
		}
		if _, isPtr := rt.Underlying().(*types.Pointer); isPtr {
			if _, isAbs := e.abstractHandleProbe(rt); !isAbs {
				s2 := st.clone()
				finish(s2, i+1, append(append([]Value{}, acc...), VNil{}))
			}
		}
		finish(st, i+1, append(append([]Value{}, acc...), e.havoc(st, rt, "res."+ct.Short)))
	}
	finish(st, 0, nil)
}

// genericLoopHeader implements the cut-point rule for loops that carry an invariant in the contract file
// (index/condition/cursor loops). Returns true if the path ended here (back edge).
func (e *Engine) genericLoopHeader(st *State, fr *Frame, b *ssa.BasicBlock) (handled bool, ended bool) {
	ord := headerOrdinal(b)
	if ord == 0 {
		return false, false
	}
	cls := e.loopInvariants(fr.fn, ord)
	if cls == nil && !e.unrollAll && e.autoCut[fmt.Sprintf("%s/%d", fr.fn.String(), b.Index)] {
		cls = []Clause{{Kind: "invariant", Node: mustParseRSL("true"), Src: "true",
			Name: fmt.Sprintf("auto:%s.loop%d#true", fnName(fr.fn), ord)}}
	}
	if cls == nil || e.unrollAll {
		return false, false
	}
	// candidate invariants nobody has to write (and that therefore do not depend on what a local is called): every
	// loop-carried variable of type `any` stays non-nil. A candidate that is not inductive is dropped and the function
	// verified again (verifyFunction), so only proved candidates are ever assumed.
	if e.autoOff != nil {
		key := fmt.Sprintf("%s.loop%d", fnName(fr.fn), ord)
		cls = append([]Clause{}, cls...)
		for _, in := range b.Instrs {
			ph, ok := in.(*ssa.Phi)
			if !ok {
				break
			}
			it, isIface := ph.Type().Underlying().(*types.Interface)
			if ph.Comment == "" || !isIface || it.NumMethods() != 0 {
				continue
			}
			id := key + "#nn:" + ph.Comment
			if e.autoOff[id] {
				continue
			}
			if n, err := parseRSL(ph.Comment + " != nil"); err == nil {
				cls = append(cls, Clause{Kind: "invariant", Node: n, Src: ph.Comment + " != nil", Name: "auto:" + id})
			}
		}
	}
	// map-range loops over symbolic maps are handled at the Next instruction
	for _, in := range b.Instrs {
		if nx, ok := in.(*ssa.Next); ok && !nx.IsString {
			if itv, ok := st.rregs(fr)[nx.Iter].(VAbs); ok && itv.Kind == "iter" {
				if it, ok := itv.Data.(*rangeIter); ok && (it.sym != nil || it.arbitrary == nil) {
					return false, false // symbolic scalar maps: rule at Next; concrete maps: plain iteration
				}
			}
		}
	}
	key := fmt.Sprintf("genloop/%d/%d", fr.id, b.Index)
	var invs, havocs, checks []Clause
	for _, cl := range cls {
		switch cl.Kind {
		case "invariant":
			invs = append(invs, cl)
			checks = append(checks, cl)
		case "body":
			checks = append(checks, cl)
		case "havoc":
			havocs = append(havocs, cl)
		}
	}
	cls = checks
	if st.visits[key] > 0 {
		for i, g := range e.evalLoopClauses(st, fr, cls, key, false) {
			phase := "preserved"
			if cls[i].Kind == "body" {
				phase = "iteration"
			}
			e.addSideObl(st, cls[i], phase, g)
		}
		// vacuity guard: the back edge must be reachable under the assumed invariants
		e.addReachObl(st, cls[0], fr.fn.Name())
		return true, true
	}
	st.visits[key] = 1
	{
		ne := make(map[string]*State, len(st.loopEntry)+1)
		for a, b := range st.loopEntry {
			ne[a] = b
		}
		ne[key] = st.clone()
		st.loopEntry = ne
	}
	for i, g := range e.evalLoopClauses(st, fr, invs, key, false) {
		e.addSideObl(st, invs[i], "entry", g)
	}
	choices := e.havocLoopTargets(st, fr, b)
	if e.loopTouchesDB(b) {
		e.havocDB(st, "loophead")
	}
	for _, h := range havocs {
		if c, ok := e.havocLvalue(st, fr, h.Node); ok {
			choices = append(choices, c...)
		} else {
			st.incomplete = "cannot resolve `loop havoc " + h.Src + "`"
		}
	}
	if st.loopMark == nil {
		st.loopMark = map[string]int{}
	} else {
		nm := make(map[string]int, len(st.loopMark))
		for k, v := range st.loopMark {
			nm[k] = v
		}
		st.loopMark = nm
	}
	st.loopMark[key] = len(st.trace)
	// enumerate the aliasing alternatives of havocked pointer variables (bounded fan-out)
	combos := [][]Value{nil}
	for _, c := range choices {
		var next [][]Value
		for _, pre := range combos {
			for _, o := range c.options {
				next = append(next, append(append([]Value{}, pre...), o))
			}
		}
		combos = next
		if len(combos) > 64 {
			st.incomplete = "too many aliasing alternatives at a loop head"
			break
		}
	}
	k := 0
	for k < len(b.Instrs) {
		if _, ok := b.Instrs[k].(*ssa.Phi); !ok {
			break
		}
		k++
	}
	for ci, combo := range combos {
		s2 := st
		if ci < len(combos)-1 {
			s2 = st.clone()
		}
		for j, v := range combo {
			choices[j].set(s2, v)
		}
		for _, t := range e.evalLoopClauses(s2, fr, invs, key, true) {
			s2.assume(t)
		}
		nh := make(map[string]*State, len(s2.loopHead)+1)
		for a, b := range s2.loopHead {
			nh[a] = b
		}
		nh[key] = s2.clone()
		s2.loopHead = nh
		if ci < len(combos)-1 {
			s2.visits[fmt.Sprintf("%d/%d", fr.id, b.Index)]--
			e.runFrom(s2, fr, b, k)
		}
	}
	return true, false
}

// evalLoopClauses evaluates invariants of a generic loop: they may mention the parameters and free variables of
// the enclosing function and the ghost trace of the current iteration (iter("kind")).
func (e *Engine) evalLoopClauses(st *State, fr *Frame, cls []Clause, iterKey string, assume bool) []Term {
	vars := map[string]Value{}
	typs := map[string]types.Type{}
	for _, p := range fr.fn.Params {
		if v, ok := st.rregs(fr)[p]; ok {
			vars[p.Name()] = v
			typs[p.Name()] = p.Type()
		}
	}
	for _, fv := range fr.fn.FreeVars {
		if v, ok := st.rregs(fr)[fv]; ok {
			// a captured variable is a pointer to its cell: contracts name the variable, i.e. its current value
			if p, ok := v.(VPtr); ok {
				if pt, ok := fv.Type().Underlying().(*types.Pointer); ok {
					vars[fv.Name()] = e.load(st, p)
					typs[fv.Name()] = pt.Elem()
					continue
				}
			}
			vars[fv.Name()] = v
			typs[fv.Name()] = fv.Type()
		}
	}
	// address-taken locals (SSA Allocs carry the variable's name): their current value; the same for the states at
	// the loop head and at loop entry (athead / atentry)
	localsIn := func(s *State) map[string]Value {
		m := map[string]Value{}
		for _, b := range fr.fn.Blocks {
			for _, in := range b.Instrs {
				if al, ok := in.(*ssa.Alloc); ok && al.Comment != "" && al.Comment != "complit" {
					if v, ok := s.rregs(fr)[al]; ok {
						if p, ok := v.(VPtr); ok {
							if _, have := s.heap[p.Cell]; have {
								m[al.Comment] = e.load(s, p)
							}
						}
					}
				}
				// loop-carried variables as of that state (athead(x) is x at the head of the iteration)
				if ph, ok := in.(*ssa.Phi); ok && ph.Comment != "" && isLoopHeader(b) {
					if v, ok := s.rregs(fr)[ph]; ok {
						m[ph.Comment] = v
					}
				}
			}
		}
		return m
	}
	for _, b := range fr.fn.Blocks {
		for _, in := range b.Instrs {
			if al, ok := in.(*ssa.Alloc); ok && al.Comment != "" && al.Comment != "complit" {
				typs[al.Comment] = al.Type().Underlying().(*types.Pointer).Elem()
			}
		}
	}
	for k, v := range localsIn(st) {
		if _, taken := vars[k]; !taken {
			vars[k] = v
		}
	}
	// loop-carried variables: the phis of loop headers carry the source variable's name; a loop clause that names the
	// variable means its current value (old()/atentry() give earlier ones)
	for _, b := range fr.fn.Blocks {
		if !isLoopHeader(b) {
			continue
		}
		for _, in := range b.Instrs {
			ph, ok := in.(*ssa.Phi)
			if !ok {
				break
			}
			if ph.Comment == "" {
				continue
			}
			if v, ok := st.rregs(fr)[ph]; ok {
				vars[ph.Comment] = v
				typs[ph.Comment] = ph.Type()
			}
		}
	}
	// name-independent handles on the loop under the clause (so that clauses survive renamed or re-shaped loops):
	// carried() is the one loop-carried variable of type `any`, itercount() the number of iterations completed
	// before the current one (from the loop's one unit-step counter, whatever it is called and wherever it starts)
	var hdr *ssa.BasicBlock
	if iterKey != "" {
		var fid, bi int
		if n, _ := fmt.Sscanf(iterKey, "genloop/%d/%d", &fid, &bi); n == 2 && bi < len(fr.fn.Blocks) {
			hdr = fr.fn.Blocks[bi]
		}
	}
	special := func(s *State, m map[string]Value) {
		if hdr == nil || s == nil {
			return
		}
		var anys, counters []Value
		for _, in := range hdr.Instrs {
			ph, ok := in.(*ssa.Phi)
			if !ok {
				break
			}
			v, have := s.rregs(fr)[ph]
			if !have {
				continue
			}
			if it, ok := ph.Type().Underlying().(*types.Interface); ok && it.NumMethods() == 0 {
				anys = append(anys, v)
			}
			if c, step, ok := counterStartStep(ph); ok && step == 1 {
				if sv, ok := v.(VSym); ok && sv.T.Sort == SInt {
					counters = append(counters, sym(Sub(sv.T, IntLit(c))))
				}
			}
		}
		if len(anys) == 1 {
			m["carried$"] = anys[0]
		}
		if len(counters) == 1 {
			m["itercount$"] = counters[0]
		}
	}
	special(st, vars)
	var out []Term
	for _, cl := range cls {
		pre := st
		if st.entry != nil {
			pre = st.entry.clone()
		}
		env := &rEnv{e: e, pre: pre, post: st, vars: copyVars(vars), typs: typs, specs: e.contracts.specs, iterKey: iterKey, invClause: cl.Kind == "invariant"}
		if iterKey != "" {
			if h, ok := st.loopHead[iterKey]; ok {
				env.head = h.clone()
				env.headVars = localsIn(env.head)
				special(env.head, env.headVars)
			}
			if h, ok := st.loopEntry[iterKey]; ok {
				env.entry = h.clone()
				env.entryVars = localsIn(env.entry)
			}
		}
		// the lets of the enclosing function's contract are available to its loop clauses
		for f := fr.fn; f != nil; f = f.Parent() {
			if ct := e.contracts.lookup(fnName(f)); ct != nil {
				for _, l := range ct.Lets {
					v := env.eval(l.Node)
					if env.err != nil {
						env.err = nil
						continue
					}
					env.vars[l.Name] = v
					if t := env.typeOf(l.Node); t != nil {
						env.typs[l.Name] = t
					}
				}
				break
			}
		}
		if assume {
			env.pol, env.assuming = -1, true
		} else {
			env.pol = 1
		}
		t := env.term(cl.Node)
		if env.err != nil {
			st.incomplete = "loop invariant does not evaluate: " + env.err.Error()
			out = append(out, TFalse)
			continue
		}
		out = append(out, t)
	}
	return out
}

// havocLvalue resolves `param.field.field` to a heap location and havocks it by type; pointer-like locations
// (lists, timers) yield choice points nil / fresh.
func (e *Engine) havocLvalue(st *State, fr *Frame, n *rNode) ([]ptrChoice, bool) {
	var chain []string
	for n.Op == "field" {
		chain = append([]string{n.Text}, chain...)
		n = n.Args[0]
	}
	if n.Op != "id" {
		return nil, false
	}
	var cur Value
	var ct types.Type
	for _, p := range fr.fn.Params {
		if p.Name() == n.Text {
			cur, ct = st.rregs(fr)[p], p.Type()
		}
	}
	if cur == nil {
		return nil, false
	}
	var loc VPtr
	haveLoc := false
	for _, f := range chain {
		p, ok := cur.(VPtr)
		if !ok {
			return nil, false
		}
		bt := ct
		if pt, ok := bt.Underlying().(*types.Pointer); ok {
			bt = pt.Elem()
		}
		stt, ok := bt.Underlying().(*types.Struct)
		if !ok {
			return nil, false
		}
		idx := -1
		for i := 0; i < stt.NumFields(); i++ {
			if stt.Field(i).Name() == f {
				idx = i
			}
		}
		if idx < 0 {
			return nil, false
		}
		e.load(st, p) // materialise
		loc = VPtr{Cell: p.Cell, Path: fmt.Sprintf("%s.%d", p.Path, idx)}
		haveLoc = true
		ct = stt.Field(idx).Type()
		cur = e.load(st, loc)
	}
	if !haveLoc {
		return nil, false
	}
	if typeIsPkg(ct, "container/list", "List") {
		// a list pointer that may have become nil: symbolic nil flag, unknown content
		seq := e.fresh(st, "list.seq", SEvSeq)
		ln := e.fresh(st, "list.len", SInt)
		st.assume(Ge(ln, IntLit(0)))
		isnil := e.fresh(st, "list.isnil", SBool)
		e.store(st, loc, VAbs{Kind: "list", ID: e.newCell(st, &ListObj{Seq: seq, Len: ln, NilT: isnil})})
		return nil, true
	}
	e.store(st, loc, e.havoc(st, ct, "loophavoc"))
	return nil, true
}

// havocPath havocks the location named by `param.field...` given actual arguments of fn.
func (e *Engine) havocPath(st *State, fn *ssa.Function, args []Value, n *rNode) bool {
	fr := &Frame{fn: fn, regs: map[ssa.Value]Value{}}
	for i, p := range fn.Params {
		if i < len(args) {
			st.wregs(fr)[p] = args[i]
		}
	}
	choices, ok := e.havocLvalue(st, fr, n)
	if !ok {
		return false
	}
	for _, c := range choices {
		// pointer-like location: keep it simple and pick the fresh non-nil alternative last
		c.set(st, c.options[len(c.options)-1])
	}
	return true
}

// usesTrace reports whether a clause mentions the ghost trace (directly or through a let).
func usesTrace(n *rNode, ct *Contract) bool {
	if n == nil {
		return false
	}
	switch n.Op {
	case "call":
		switch n.Text {
		case "count", "iter", "callarg", "callpos", "pushpos", "pushes", "lastpushed", "delivered", "nolocks", "held",
			"sqlAllInTxn", "writesAllInTxn", "oneTxn", "casDrawnInTxn", "lockedThroughout", "postsAfterCommit", "stmtsScoped",
			"tracepos", "scanned", "callret", "callretval", "callrecv", "rangekey", "updkey", "updval", "cbret", "callbackarg", "leftloopearly", "stmtWhereOn", "stmtParamOf", "stmtCount", "cursorWhere", "cursorOrderBy", "cursorCount", "cursorRow", "cursorId", "lenlist", "intxn":
			return true
		}
	case "id":
		switch n.Text {
		case "posted", "committed", "panicked", "clockdraw", "newCas", "now":
			return true
		}
		for _, l := range ct.Lets {
			if l.Name == n.Text && usesTrace(l.Node, &Contract{}) {
				return true
			}
		}
	}
	for _, a := range n.Args {
		if usesTrace(a, ct) {
			return true
		}
	}
	return false
}

// loopWritesMapOfType: does the loop with this header update or delete entries of a map of the given type?
// (Only then does the map-range rule have to forget the content of the ranged map.)
func loopWritesMapOfType(header *ssa.BasicBlock, mt *types.Map) bool {
	for b := range loopBlocks(header) {
		for _, ins := range b.Instrs {
			switch x := ins.(type) {
			case *ssa.MapUpdate:
				if types.Identical(x.Map.Type().Underlying(), mt) {
					return true
				}
			case *ssa.Call:
				if bi, ok := x.Call.Value.(*ssa.Builtin); ok && bi.Name() == "delete" {
					if types.Identical(x.Call.Args[0].Type().Underlying(), mt) {
						return true
					}
				} else if !ok {
					// a call that receives a map of this type may modify it
					for _, a := range x.Call.Args {
						if types.Identical(a.Type().Underlying(), mt) {
							return true
						}
					}
				}
			}
		}
	}
	return false
}

// havocDB forgets the content of the tables and assumes the declared database invariant for every row.
func (e *Engine) havocDB(st *State, why string) {
	st.g.Docs = e.fresh(st, "docs."+why, SDocs)
	st.g.BucketLastCas = e.fresh(st, "blc."+why, SInt)
	st.g.CollLastCas = e.fresh(st, "clc."+why, SColls)
	e.assumeDBInv(st)
}

func (e *Engine) assumeDBInv(st *State) {
	if e.contracts == nil || e.contracts.dbInv == nil || e.noDBInv {
		return
	}
	docs := st.g.Docs
	node := e.contracts.dbInv
	specs := e.contracts.specs
	st.addInst(SDocId, func(s *State, idx Term) Term {
		env := &rEnv{e: e, pre: s, post: s, vars: map[string]Value{"r": sym(Select(docs, idx, SRow))}, typs: map[string]types.Type{}, specs: specs}
		t := env.term(node)
		if env.err != nil {
			return TTrue
		}
		return t
	})
}

// loopTouchesDB: does the loop body call a function whose contract declares modifies=db, or a client callback?
func (e *Engine) loopTouchesDB(header *ssa.BasicBlock) bool {
	for b := range loopBlocks(header) {
		for _, ins := range b.Instrs {
			call, ok := ins.(*ssa.Call)
			if !ok {
				continue
			}
			if fn := call.Call.StaticCallee(); fn != nil {
				if ct := e.contracts.lookup(fnName(fn)); ct != nil && ct.Flags["modifies"] == "db" {
					return true
				}
			} else if !call.Call.IsInvoke() {
				if _, isBuiltin := call.Call.Value.(*ssa.Builtin); !isBuiltin && e.callbacksWriteDB {
					return true
				}
			}
		}
	}
	return false
}

// counterStart recognises phi = [c, phi + k] with integer constants c and k > 0 and returns c.
func counterStart(phi *ssa.Phi) (int64, bool) {
	c, _, ok := counterStartStep(phi)
	return c, ok
}

func counterStartStep(phi *ssa.Phi) (int64, int64, bool) {
	if len(phi.Edges) != 2 {
		return 0, 0, false
	}
	var start, step int64
	haveStart, haveStep := false, false
	for _, ed := range phi.Edges {
		switch x := ed.(type) {
		case *ssa.Const:
			if x.Value != nil && x.Value.Kind() == constant.Int {
				if v, ok := constant.Int64Val(x.Value); ok {
					start, haveStart = v, true
				}
			}
		case *ssa.BinOp:
			if x.Op == token.ADD && x.X == ssa.Value(phi) {
				if k, ok := x.Y.(*ssa.Const); ok && k.Value != nil && k.Value.Kind() == constant.Int {
					if v, ok := constant.Int64Val(k.Value); ok && v > 0 {
						step, haveStep = v, true
					}
				}
			}
		}
	}
	return start, step, haveStart && haveStep
}
