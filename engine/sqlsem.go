package main

// Row-wise semantics of the SQL subset over the ghost tables (assumption A-SQL; validated by conformance sampling).

import (
	"fmt"
	"go/types"
	"strings"
)

type SQLVal struct {
	T    Term
	Null Term // Bool
	Any  bool // unknown (havoc at use)
}

type ExecResult struct {
	Rows   Term
	LastID Term
}

type RowResult struct {
	Found Term
	Cols  []SQLVal
	Closed bool
}

type RowsObj struct {
	Stmt   *SQLStmt
	Params *sqlParams
	Docs   Term
	Table  string
	ID     int
}

type sqlParams struct {
	pos   []SQLVal          // positional, 1-based => pos[i-1]
	named map[string]SQLVal // $NAME
	next  int               // for bare '?'
}

// StmtInfo is recorded in the trace for the statement-level obligations (C11, C03, C10).
type StmtInfo struct {
	Params   *sqlParams
	DocsAt   Term
	Stmt     *SQLStmt
	Handle   string // tx | pool
	Table    string
	Kind     string
	Keyed    bool
	Cursor   *RowsObj
	CollTerm Term // term bound to the collection column ("" when the statement does not restrict it)
	KeyTerm  Term
	Writes   bool
}

var docCols = map[string]string{
	"id": "r.rowid", "value": "r.value", "cas": "r.cas", "exp": "r.exp", "xattrs": "r.xattrs",
	"isjson": "r.isJSON", "tombstone": "r.tombstone", "revseqno": "r.rev",
}
var docColOrder = []string{"id", "value", "cas", "exp", "xattrs", "isjson", "tombstone", "revseqno"}

func docColSort(c string) *Sort {
	switch c {
	case "value", "xattrs":
		return SBytes
	case "key":
		return SStr
	}
	return SInt
}

var nullB = mkT("NULLB", SBytes)

// argToSQL converts a Go argument (inside an `any`) to a SQL value.
func (e *Engine) argToSQL(st *State, v Value) SQLVal {
	switch a := v.(type) {
	case VIface:
		return e.argToSQL(st, a.V)
	case VNil:
		return SQLVal{T: nullB, Null: TTrue}
	case VSym:
		switch a.T.Sort {
		case SBool:
			return SQLVal{T: Ite(a.T, IntLit(1), IntLit(0)), Null: TFalse}
		case SBytes:
			return SQLVal{T: a.T, Null: App(SBool, "b.isnil", a.T)}
		default:
			return SQLVal{T: a.T, Null: TFalse}
		}
	}
	return SQLVal{Any: true}
}

func (e *Engine) buildParams(st *State, args []Value) *sqlParams {
	p := &sqlParams{named: map[string]SQLVal{}}
	for _, a := range args {
		if iv, ok := a.(VIface); ok {
			a = iv.V
		}
		if na, ok := a.(VAbs); ok && na.Kind == "namedarg" {
			nargs := na.Data.([]Value)
			if ns, ok := nargs[0].(VSym); ok {
				if name, ok := e.reverseStr(ns.T.S); ok {
					p.named[strings.ToUpper(name)] = e.argToSQL(st, nargs[1])
					continue
				}
			}
		}
		p.pos = append(p.pos, e.argToSQL(st, a))
	}
	return p
}

type evalCtx struct {
	docOfIn Term // DocId of the documents row that the left side of `x IN (SELECT id FROM documents ...)` refers to
	docsIn  Term
	e      *Engine
	st     *State
	params *sqlParams
	row    Term // Row term (documents) or "" for other tables
	id     Term // DocId term
	table  string
	other  func(col string) SQLVal // column access for non-document tables
}

func (c *evalCtx) param(name string) SQLVal {
	p := c.params
	switch {
	case strings.HasPrefix(name, "#"): // hole
		var n int
		fmt.Sscanf(name[1:], "%d", &n)
		if n < len(c.e.holes) {
			return SQLVal{T: c.e.holes[n], Null: TFalse}
		}
	case name == "?":
		p.next++
		if p.next-1 < len(p.pos) {
			return p.pos[p.next-1]
		}
	case strings.HasPrefix(name, "?"):
		var n int
		fmt.Sscanf(name[1:], "%d", &n)
		if n >= 1 && n <= len(p.pos) {
			return p.pos[n-1]
		}
	default:
		if v, ok := p.named[strings.ToUpper(name[1:])]; ok {
			return v
		}
	}
	return SQLVal{Any: true}
}

func (c *evalCtx) havocVal(sort *Sort) SQLVal {
	return SQLVal{T: c.e.fresh(c.st, "sqlv", sort), Null: TFalse}
}

func (c *evalCtx) col(name, tbl string) SQLVal {
	ln := strings.ToLower(name)
	if c.row.S != "" && (tbl == "" || strings.EqualFold(tbl, "documents")) {
		switch ln {
		case "collection":
			return SQLVal{T: Acc(SInt, "d.coll", c.id), Null: TFalse}
		case "key":
			return SQLVal{T: Acc(SStr, "d.key", c.id), Null: TFalse}
		}
		if acc, ok := docCols[ln]; ok {
			t := Acc(docColSort(ln), acc, c.row)
			if t.Sort == SBytes {
				return SQLVal{T: t, Null: App(SBool, "b.isnil", t)}
			}
			return SQLVal{T: t, Null: TFalse}
		}
	}
	if c.other != nil {
		return c.other(ln)
	}
	return SQLVal{Any: true}
}

func toInt(v SQLVal) Term {
	if v.T.Sort == SBool {
		return Ite(v.T, IntLit(1), IntLit(0))
	}
	return v.T
}

// truth converts a SQL value to (isTrue, isNull)
func (c *evalCtx) truth(v SQLVal) (Term, Term) {
	if v.Any {
		return c.e.fresh(c.st, "sqlb", SBool), TFalse
	}
	if v.T.Sort == SBool {
		return v.T, v.Null
	}
	if v.T.Sort == SInt {
		return Not(Eq(v.T, IntLit(0))), v.Null
	}
	return c.e.fresh(c.st, "sqlb", SBool), v.Null
}

func (c *evalCtx) eval(x *SQLExpr) SQLVal {
	if x.Op == "cast" && len(x.Args) == 1 {
		return c.eval(x.Args[0])
	}
	switch x.Op {
	case "num":
		var n int64
		fmt.Sscanf(x.Name, "%d", &n)
		return SQLVal{T: IntLit(n), Null: TFalse}
	case "str":
		return SQLVal{T: c.e.strLit(x.Name), Null: TFalse}
	case "null":
		return SQLVal{T: nullB, Null: TTrue}
	case "param":
		return c.param(x.Name)
	case "col":
		return c.col(x.Name, x.Tbl)
	case "isnull":
		v := c.eval(x.Args[0])
		if v.Any {
			return SQLVal{T: c.e.fresh(c.st, "isnull", SBool), Null: TFalse}
		}
		return SQLVal{T: v.Null, Null: TFalse}
	case "notnull":
		v := c.eval(x.Args[0])
		if v.Any {
			return SQLVal{T: c.e.fresh(c.st, "notnull", SBool), Null: TFalse}
		}
		return SQLVal{T: Not(v.Null), Null: TFalse}
	case "not":
		t, n := c.truth(c.eval(x.Args[0]))
		return SQLVal{T: Not(t), Null: n}
	case "and":
		at, an := c.truth(c.eval(x.Args[0]))
		bt, bn := c.truth(c.eval(x.Args[1]))
		// three-valued: false if either is definitely false; null if not false and either null
		isFalse := Or(And(Not(an), Not(at)), And(Not(bn), Not(bt)))
		isNull := And(Not(isFalse), Or(an, bn))
		return SQLVal{T: And(Not(isFalse), Not(isNull)), Null: isNull}
	case "or":
		at, an := c.truth(c.eval(x.Args[0]))
		bt, bn := c.truth(c.eval(x.Args[1]))
		isTrue := Or(And(Not(an), at), And(Not(bn), bt))
		isNull := And(Not(isTrue), Or(an, bn))
		return SQLVal{T: isTrue, Null: isNull}
	case "=", "!=", "<", "<=", ">", ">=":
		a := c.eval(x.Args[0])
		b := c.eval(x.Args[1])
		if a.Any || b.Any {
			return SQLVal{T: c.e.fresh(c.st, "sqlcmp", SBool), Null: TFalse}
		}
		null := Or(a.Null, b.Null)
		at, bt := a.T, b.T
		if at.Sort == SBool || bt.Sort == SBool {
			at, bt = toInt(a), toInt(b)
		}
		if at.Sort != bt.Sort {
			return SQLVal{T: c.e.fresh(c.st, "sqlcmp", SBool), Null: null}
		}
		var t Term
		switch x.Op {
		case "=":
			t = Eq(at, bt)
		case "!=":
			t = Not(Eq(at, bt))
		default:
			if at.Sort != SInt {
				t = c.e.fresh(c.st, "sqlcmp", SBool)
			} else {
				t = cmp(x.Op, at, bt)
			}
		}
		return SQLVal{T: t, Null: null}
	case "concat":
		a := c.eval(x.Args[0])
		b := c.eval(x.Args[1])
		if a.Any || b.Any || a.T.Sort != SBytes || b.T.Sort != SBytes {
			return SQLVal{Any: true}
		}
		null := Or(a.Null, b.Null)
		cc := App(SBytes, "b.concat", a.T, b.T)
		c.st.fact(Not(Eq(cc, nullB)))
		return SQLVal{T: Ite(null, nullB, cc), Null: null}
	case "+", "-":
		a := c.eval(x.Args[0])
		b := c.eval(x.Args[1])
		if a.Any || b.Any || a.T.Sort != SInt || b.T.Sort != SInt {
			return SQLVal{Any: true}
		}
		return SQLVal{T: arith(x.Op, a.T, b.T), Null: Or(a.Null, b.Null)}
	case "in":
		// col IN (SELECT id FROM documents WHERE w): holds iff the documents row with that id exists and satisfies w.
		// The caller designates that row (docOfIn); anything else is unknown.
		if x.Sub != nil && strings.EqualFold(x.Sub.Table, "documents") && c.docOfIn.S != "" && len(x.Sub.Sel) == 1 &&
			x.Sub.Sel[0].Expr != nil && x.Sub.Sel[0].Expr.Op == "col" && strings.EqualFold(x.Sub.Sel[0].Expr.Name, "id") {
			sub := &evalCtx{e: c.e, st: c.st, params: c.params, table: "documents"}
			sub.row, sub.id = Select(c.docsIn, c.docOfIn, SRow), c.docOfIn
			return SQLVal{T: And(rowPresent(sub.row), sub.where(x.Sub.Where)), Null: TFalse}
		}
		return SQLVal{Any: true}
	case "call":
		switch x.Name {
		case "iif":
			if len(x.Args) == 3 {
				ct, cn := c.truth(c.eval(x.Args[0]))
				a := c.eval(x.Args[1])
				b := c.eval(x.Args[2])
				if a.Any || b.Any {
					return SQLVal{Any: true}
				}
				cond := And(ct, Not(cn))
				at, bt := a.T, b.T
				if at.Sort != bt.Sort {
					return SQLVal{Any: true}
				}
				return SQLVal{T: Ite(cond, at, bt), Null: Ite(cond, a.Null, b.Null)}
			}
		}
		return SQLVal{Any: true}
	}
	return SQLVal{Any: true}
}

// where evaluates a WHERE expression to "row passes".
func (c *evalCtx) where(x *SQLExpr) Term {
	if x == nil {
		return TTrue
	}
	t, n := c.truth(c.eval(x))
	return And(t, Not(n))
}

// keyOf finds `collection = A` and `key = B` among the top-level conjuncts. rest is the remaining condition.
func (c *evalCtx) keyOf(where *SQLExpr) (coll, key SQLVal, hasColl, hasKey bool, rest []*SQLExpr) {
	for _, cj := range conjuncts(where) {
		if cj.Op == "=" {
			l, r := cj.Args[0], cj.Args[1]
			if r.Op == "col" && l.Op != "col" {
				l, r = r, l
			}
			if l.Op == "col" && r.Op != "col" && (l.Tbl == "" || strings.EqualFold(l.Tbl, "documents")) {
				switch strings.ToLower(l.Name) {
				case "collection":
					if !hasColl {
						coll, hasColl = c.evalNoRow(r), true
						continue
					}
				case "key":
					if !hasKey {
						key, hasKey = c.evalNoRow(r), true
						continue
					}
				}
			}
		}
		rest = append(rest, cj)
	}
	return
}

func (c *evalCtx) evalNoRow(x *SQLExpr) SQLVal {
	saved := c.row
	c.row = Term{}
	v := c.eval(x)
	c.row = saved
	return v
}

func andExprs(xs []*SQLExpr) *SQLExpr {
	if len(xs) == 0 {
		return nil
	}
	r := xs[0]
	for _, x := range xs[1:] {
		r = &SQLExpr{Op: "and", Args: []*SQLExpr{r, x}}
	}
	return r
}

func mkId(coll, key Term) Term { return App(SDocId, "mkId", coll, key) }

// colTerm coerces a SQL value for storage in a documents column.
func (c *evalCtx) colTerm(col string, v SQLVal) Term {
	s := docColSort(col)
	if v.Any {
		return c.e.fresh(c.st, "sqlcol."+col, s)
	}
	if s == SBytes {
		if v.T.Sort == SBytes {
			return v.T
		}
		if v.T.Sort == SStr {
			return App(SBytes, "b.ofstr", v.T)
		}
		return c.e.fresh(c.st, "sqlcol."+col, s)
	}
	if s == SInt {
		if v.T.Sort == SBool {
			return Ite(v.T, IntLit(1), IntLit(0))
		}
		if v.T.Sort == SInt {
			return v.T
		}
		if v.T.Sort == SBytes { // NULL literal into an integer column
			return c.e.fresh(c.st, "sqlcol."+col, s)
		}
	}
	return c.e.fresh(c.st, "sqlcol."+col, s)
}

// applySets returns the updated row (all right-hand sides see the old row).
func (c *evalCtx) applySets(old Term, sets []SQLSet) (Term, error) {
	vals := map[string]Term{}
	for _, s := range sets {
		ln := strings.ToLower(s.Col)
		if _, ok := docCols[ln]; !ok || ln == "id" {
			return Term{}, fmt.Errorf("SET of unsupported column %s", s.Col)
		}
		vals[ln] = c.colTerm(ln, c.eval(s.Expr))
	}
	return rebuildRow(old, vals), nil
}

func rebuildRow(old Term, vals map[string]Term) Term {
	args := []Term{TTrue}
	for _, col := range docColOrder {
		if v, ok := vals[col]; ok {
			args = append(args, v)
		} else {
			args = append(args, Acc(docColSort(col), docCols[col], old))
		}
	}
	return App(SRow, "mkRow", args...)
}

func rowPresent(r Term) Term { return Acc(SBool, "r.present", r) }

// docDefaults returns default column terms from schema.sql.
func (e *Engine) docDefault(col string) Term {
	for _, cd := range e.docSchema {
		if strings.EqualFold(cd.Name, col) {
			switch cd.Default {
			case "":
				if docColSort(strings.ToLower(col)) == SBytes {
					return nullB
				}
				return IntLit(0) // NULL integer: not modelled; rosmar never relies on it
			case "true":
				return IntLit(1)
			case "false":
				return IntLit(0)
			default:
				var n int64
				fmt.Sscanf(cd.Default, "%d", &n)
				return IntLit(n)
			}
		}
	}
	if docColSort(col) == SBytes {
		return nullB
	}
	return IntLit(0)
}

// ---------------------------------------------------------------------------
// statement execution

func (e *Engine) sqlText(st *State, v Value) (string, bool) {
	s, ok := v.(VSym)
	if !ok {
		return "", false
	}
	return e.reverseStr(s.T.S)
}

func handleKind(v Value) string {
	if iv, ok := v.(VIface); ok {
		v = iv.V
	}
	if a, ok := v.(VAbs); ok {
		return a.Kind
	}
	return "?"
}

func (e *Engine) dbError(st *State) Value {
	// an SQLite error with a code other than BUSY/LOCKED (A-BUSY)
	code := e.fresh(st, "sqlite.code", SInt)
	st.assume(Not(Eq(code, IntLit(5))))
	st.assume(Not(Eq(code, IntLit(6))))
	st.assume(And(Ge(code, IntLit(1)), Le(code, IntLit(255))))
	t := e.sqliteErrorType()
	if t == nil {
		return e.sentinelErr(st, "dberror")
	}
	// sqlite3.Error{Code, ExtendedCode, SystemErrno, err}
	st2 := t.Underlying().(*types.Struct)
	fs := make([]Value, st2.NumFields())
	for i := range fs {
		if st2.Field(i).Name() == "Code" {
			fs[i] = sym(code)
		} else {
			fs[i] = e.havoc(st, st2.Field(i).Type(), "sqliteerr")
		}
	}
	return VIface{Typ: t, V: VStruct{fs}}
}

func (e *Engine) sqliteErrorType() types.Type {
	if e.sqliteErrT != nil {
		return e.sqliteErrT
	}
	for _, p := range e.prog.AllPackages() {
		if p.Pkg.Path() == "github.com/mattn/go-sqlite3" {
			if tn := p.Pkg.Scope().Lookup("Error"); tn != nil {
				e.sqliteErrT = tn.Type()
			}
		}
	}
	return e.sqliteErrT
}

func (e *Engine) recordStmt(st *State, info *StmtInfo, text, pos string) {
	st.addTrace(TraceEv{Kind: "sql", Text: text, Pos: pos, Extra: info})
}

// sqlExecModel: (*sql.Tx).Exec / (*sql.DB).Exec (handle, query, args...)
func sqlExecModel(e *Engine, st *State, args []Value, depth int, pos string, k func(*State, Value)) {
	handle := handleKind(args[0])
	text, ok := e.sqlText(st, args[1])
	if !ok {
		st.addTrace(TraceEv{Kind: "sql", Text: "<dynamic>", Pos: pos, Extra: &StmtInfo{Handle: handle, Kind: "dynamic", Writes: true}})
		e.havocAllTables(st, "dynamic sql")
		e.forkDBError(st, func(st *State, err Value) {
			k(st, VTuple{[]Value{VNil{}, err}})
		}, func(st *State) {
			k(st, VTuple{[]Value{e.newResult(st, nil, nil), VNil{}}})
		})
		return
	}
	if handle == "pool" && st.txn != nil && e.inMemoryPossible {
		st.addTrace(TraceEv{Kind: "pool-in-txn", Text: text, Pos: pos})
	}
	e.sqlTexts[text] = true
	stmt, err := parseSQL(text)
	if err != nil {
		st.incomplete = "SQL outside the modelled subset at " + pos + ": " + err.Error()
		e.endPath(st)
		return
	}
	var params *sqlParams
	if len(args) > 2 {
		params = e.buildParams(st, e.sliceElems(st, args[2]))
	} else {
		params = &sqlParams{named: map[string]SQLVal{}}
	}
	e.forkDBError(st, func(st *State, err Value) {
		k(st, VTuple{[]Value{VNil{}, err}})
	}, func(st *State) {
		res, failed := e.execStmt(st, stmt, params, handle, text, pos)
		if st.incomplete != "" {
			e.endPath(st)
			return
		}
		if failed.S != "" && !failed.IsFalse() {
			// constraint violation: the statement fails when `failed` holds
			st2 := st.clone()
			st2.assume(failed)
			if st2.preStmt != nil {
				st2.g = *st2.preStmt
			}
			k(st2, VTuple{[]Value{VNil{}, e.dbError(st2)}})
			st.assume(Not(failed))
		}
		st.preStmt = nil
		k(st, VTuple{[]Value{res, VNil{}}})
	})
}

func (e *Engine) newResult(st *State, rows, last *Term) Value {
	r := &ExecResult{}
	if rows != nil {
		r.Rows = *rows
	} else {
		r.Rows = e.fresh(st, "rowsAffected", SInt)
		st.assume(Ge(r.Rows, IntLit(0)))
	}
	if last != nil {
		r.LastID = *last
	} else {
		r.LastID = e.fresh(st, "lastInsertId", SInt)
		st.assume(Gt(r.LastID, IntLit(0)))
	}
	st.addTrace(TraceEv{Kind: "sqlresult", Terms: map[string]Term{"last": r.LastID, "rows": r.Rows}})
	return VIface{V: VAbs{Kind: "result", ID: e.nextID(), Data: r}}
}

// forkDBError explores "the statement fails with a database error" and "it runs".
func (e *Engine) forkDBError(st *State, fail func(*State, Value), ok func(*State)) {
	if e.dbErrors {
		st2 := st.clone()
		fail(st2, e.dbError(st2))
	}
	ok(st)
}

func (e *Engine) havocAllTables(st *State, why string) {
	st.g.Docs = e.fresh(st, "docs.havoc", SDocs)
	st.g.BucketLastCas = e.fresh(st, "blc.havoc", SInt)
	st.g.CollLastCas = e.fresh(st, "clc.havoc", SColls)
	for k := range st.g.Vers {
		st.g.Vers[k] = e.fresh(st, "vers."+k, SInt)
	}
	st.notes = append(st.notes, "all tables havocked: "+why)
}

func (e *Engine) bumpTable(st *State, table string) {
	st.g.Vers[strings.ToLower(table)] = e.fresh(st, "vers."+table, SInt)
}

// execStmt applies a write statement. Returns the sql.Result and a "fails with constraint error" condition.
func (e *Engine) execStmt(st *State, stmt *SQLStmt, params *sqlParams, handle, text, pos string) (Value, Term) {
	info := &StmtInfo{Stmt: stmt, Handle: handle, Table: strings.ToLower(stmt.Table), Kind: stmt.Kind, Writes: true, Params: params, DocsAt: st.g.Docs}
	defer e.recordStmt(st, info, text, pos)
	snap := st.g.clone()
	st.preStmt = &snap
	c := &evalCtx{e: e, st: st, params: params, table: info.Table}
	switch info.Table {
	case "documents":
		return e.execDocs(st, c, stmt, info)
	case "bucket":
		if stmt.Kind == "update" {
			for _, s := range stmt.Sets {
				if strings.EqualFold(s.Col, "lastCas") {
					v := c.eval(s.Expr)
					if v.Any || v.T.Sort != SInt {
						st.g.BucketLastCas = e.fresh(st, "bucket.lastCas", SInt)
					} else {
						st.g.BucketLastCas = v.T
					}
				} else {
					e.bumpTable(st, "bucket."+strings.ToLower(s.Col))
				}
			}
			one := IntLit(1)
			return e.newResult(st, &one, nil), TFalse
		}
	case "collections":
		switch stmt.Kind {
		case "update":
			cc, _, _, _, _ := c.keyOf(stmt.Where)
			_ = cc
			var idv SQLVal
			hasID := false
			for _, cj := range conjuncts(stmt.Where) {
				if cj.Op == "=" && cj.Args[0].Op == "col" && strings.EqualFold(cj.Args[0].Name, "id") {
					idv, hasID = c.eval(cj.Args[1]), true
				}
			}
			onlyLastCas := len(stmt.Sets) == 1 && strings.EqualFold(stmt.Sets[0].Col, "lastCas")
			if hasID && !idv.Any && onlyLastCas && len(conjuncts(stmt.Where)) == 1 {
				v := c.eval(stmt.Sets[0].Expr)
				info.CollTerm = idv.T
				if !v.Any && v.T.Sort == SInt {
					st.g.CollLastCas = Store(st.g.CollLastCas, idv.T, v.T)
					return e.newResult(st, nil, nil), TFalse
				}
			}
			st.g.CollLastCas = e.fresh(st, "clc", SColls)
			e.bumpTable(st, "collections")
			return e.newResult(st, nil, nil), TFalse
		case "insert":
			e.bumpTable(st, "collections")
			// AUTOINCREMENT: the new id was never used before (assumed): the collection starts empty
			id := e.fresh(st, "newcoll.id", SInt)
			st.assume(Gt(id, IntLit(0)))
			{
				docsAt, nid := st.g.Docs, id
				st.bulk = append(st.bulk, func(st *State, idx Term) Term {
					return Implies(Eq(Acc(SInt, "d.coll", idx), nid), Not(rowPresent(Select(docsAt, idx, SRow))))
				})
			}
			st.g.CollLastCas = Store(st.g.CollLastCas, id, IntLit(0))
			one := IntLit(1)
			return e.newResult(st, &one, &id), TFalse
		case "delete":
			// cascade: every document of the deleted collection disappears, nothing else
			e.bumpTable(st, "collections")
			e.bumpTable(st, "designdocs")
			e.bumpTable(st, "views")
			e.bumpTable(st, "mapped")
			var scope, name SQLVal
			for _, cj := range conjuncts(stmt.Where) {
				if cj.Op == "=" && cj.Args[0].Op == "col" {
					switch strings.ToLower(cj.Args[0].Name) {
					case "scope":
						scope = c.eval(cj.Args[1])
					case "name":
						name = c.eval(cj.Args[1])
					}
				}
			}
			if scope.T.S == "" || name.T.S == "" || len(conjuncts(stmt.Where)) != 2 {
				e.havocAllTables(st, "DELETE FROM collections with an unmodelled WHERE")
				return e.newResult(st, nil, nil), TFalse
			}
			cid := App(SInt, "collid", scope.T, name.T)
			e.needCollid = true
			nd := e.fresh(st, "docs.drop", SDocs)
			{
				docsAt := st.g.Docs
				st.bulk = append(st.bulk, func(st *State, idx Term) Term {
					return Eq(Select(nd, idx, SRow), Ite(Eq(Acc(SInt, "d.coll", idx), cid), mkT("ABSENTROW", SRow), Select(docsAt, idx, SRow)))
				})
			}
			st.g.Docs = nd
			info.CollTerm = cid
			st.addTrace(TraceEv{Kind: "dropcoll", Terms: map[string]Term{"cid": cid}})
			return e.newResult(st, nil, nil), TFalse
		}
	}
	// other tables: opaque write
	if stmt.Kind == "other" || stmt.Kind == "with" {
		e.havocAllTables(st, "unmodelled statement "+truncate(text, 60))
		return e.newResult(st, nil, nil), TFalse
	}
	e.bumpTable(st, info.Table)
	if info.Table == "designdocs" {
		e.bumpTable(st, "views")
		e.bumpTable(st, "mapped")
	}
	if info.Table == "views" {
		e.bumpTable(st, "mapped")
	}
	// record which collection / view the statement is restricted to
	for _, cj := range conjuncts(stmt.Where) {
		if cj.Op == "=" && cj.Args[0].Op == "col" && strings.EqualFold(cj.Args[0].Name, "collection") {
			if v := c.eval(cj.Args[1]); !v.Any {
				info.CollTerm = v.T
			}
		}
	}
	for i, col := range stmt.Cols {
		if strings.EqualFold(col, "collection") {
			if v := c.eval(stmt.Values[i]); !v.Any {
				info.CollTerm = v.T
			}
		}
	}
	return e.newResult(st, nil, nil), TFalse
}

func (e *Engine) execDocs(st *State, c *evalCtx, stmt *SQLStmt, info *StmtInfo) (Value, Term) {
	docs := st.g.Docs
	switch stmt.Kind {
	case "update", "delete":
		coll, key, hasColl, hasKey, rest := c.keyOf(stmt.Where)
		if hasColl && !coll.Any {
			info.CollTerm = coll.T
		}
		if hasColl && hasKey && !coll.Any && !key.Any {
			info.Keyed, info.KeyTerm = true, key.T
			id := mkId(coll.T, key.T)
			old := Select(docs, id, SRow)
			c.row, c.id = old, id
			cond := And(rowPresent(old), c.where(andExprs(rest)))
			var nrow Term
			if stmt.Kind == "delete" {
				nrow = mkT("ABSENTROW", SRow)
			} else {
				var err error
				nrow, err = c.applySets(old, stmt.Sets)
				if err != nil {
					st.incomplete = err.Error()
					return nil, TFalse
				}
			}
			st.g.Docs = Store(docs, id, Ite(cond, nrow, old))
			n := Ite(cond, IntLit(1), IntLit(0))
			return e.newResult(st, &n, nil), TFalse
		}
		// bulk: the new table is defined pointwise; the definition is instantiated on every DocId term of the
		// obligation (addressed row, Skolem "other" row) instead of being asserted with a quantifier
		nd := e.fresh(st, "docs.bulk", SDocs)
		{
			docsAt := docs
			params := c.params
			kind := stmt.Kind
			where := stmt.Where
			sets := stmt.Sets
			var setErr error
			inst := func(st *State, idx Term) Term {
				cc := &evalCtx{e: e, st: st, params: params, table: "documents"}
				old := Select(docsAt, idx, SRow)
				cc.row, cc.id = old, idx
				cond := And(rowPresent(old), cc.where(where))
				var nrow Term
				if kind == "delete" {
					nrow = mkT("ABSENTROW", SRow)
				} else {
					nrow, setErr = cc.applySets(old, sets)
					if setErr != nil {
						return TTrue
					}
				}
				return Eq(Select(nd, idx, SRow), Ite(cond, nrow, old))
			}
			// check the SET list once
			inst(st, mkT("probe!id", SDocId))
			if setErr != nil {
				st.incomplete = setErr.Error()
				return nil, TFalse
			}
			st.bulk = append(st.bulk, inst)
		}
		st.g.Docs = nd
		info.Keyed = false
		// number of rows changed: uninterpreted count
		return e.newResult(st, nil, nil), TFalse
	case "insert":
		vals := map[string]SQLVal{}
		for i, col := range stmt.Cols {
			vals[strings.ToLower(col)] = c.evalNoRow(stmt.Values[i])
		}
		coll, ok1 := vals["collection"]
		key, ok2 := vals["key"]
		if !ok1 || !ok2 || coll.Any || key.Any {
			st.incomplete = "INSERT INTO documents without a determinate (collection,key)"
			return nil, TFalse
		}
		info.Keyed, info.CollTerm, info.KeyTerm = true, coll.T, key.T
		id := mkId(coll.T, key.T)
		old := Select(docs, id, SRow)
		rowid := e.fresh(st, "rowid", SInt)
		st.assume(Gt(rowid, IntLit(0)))
		cols := map[string]Term{"id": rowid}
		for _, col := range docColOrder[1:] {
			if v, ok := vals[col]; ok {
				cols[col] = c.colTerm(col, v)
			} else {
				cols[col] = e.docDefault(col)
			}
		}
		for col := range vals {
			if _, ok := docCols[col]; !ok && col != "collection" && col != "key" {
				st.incomplete = "INSERT of unknown documents column " + col
				return nil, TFalse
			}
		}
		args := []Term{TTrue}
		for _, col := range docColOrder {
			args = append(args, cols[col])
		}
		ins := App(SRow, "mkRow", args...)
		if !stmt.HasConfl {
			st.g.Docs = Store(docs, id, Ite(rowPresent(old), old, ins))
			one := IntLit(1)
			return e.newResult(st, &one, &rowid), rowPresent(old) // UNIQUE violation if present
		}
		if len(stmt.ConflSet) == 0 { // DO NOTHING
			st.g.Docs = Store(docs, id, Ite(rowPresent(old), old, ins))
			n := Ite(rowPresent(old), IntLit(0), IntLit(1))
			return e.newResult(st, &n, nil), TFalse
		}
		c.row, c.id = old, id
		cond2 := c.where(stmt.ConflWh)
		upd, err := c.applySets(old, stmt.ConflSet)
		if err != nil {
			st.incomplete = err.Error()
			return nil, TFalse
		}
		st.g.Docs = Store(docs, id, Ite(rowPresent(old), Ite(cond2, upd, old), ins))
		n := Ite(rowPresent(old), Ite(cond2, IntLit(1), IntLit(0)), IntLit(1))
		return e.newResult(st, &n, nil), TFalse
	}
	st.incomplete = "unsupported statement kind on documents: " + stmt.Kind
	return nil, TFalse
}

// ---------------------------------------------------------------------------
// reads

func sqlQueryRowModel(e *Engine, st *State, args []Value, depth int, pos string, k func(*State, Value)) {
	handle := handleKind(args[0])
	text, ok := e.sqlText(st, args[1])
	if !ok {
		st.addTrace(TraceEv{Kind: "sql", Text: "<dynamic>", Pos: pos, Extra: &StmtInfo{Handle: handle, Kind: "dynamic"}})
		k(st, VAbs{Kind: "row", ID: e.nextID(), Data: &RowResult{Found: e.fresh(st, "found", SBool)}})
		return
	}
	e.sqlTexts[text] = true
	if handle == "pool" && st.txn != nil && e.inMemoryPossible {
		st.addTrace(TraceEv{Kind: "pool-in-txn", Text: text, Pos: pos})
	}
	stmt, err := parseSQL(text)
	if err != nil {
		st.incomplete = "SQL outside the modelled subset at " + pos + ": " + err.Error()
		e.endPath(st)
		return
	}
	var params *sqlParams
	if len(args) > 2 {
		params = e.buildParams(st, e.sliceElems(st, args[2]))
	} else {
		params = &sqlParams{named: map[string]SQLVal{}}
	}
	rr := e.queryRow(st, stmt, params, handle, text, pos)
	k(st, VAbs{Kind: "row", ID: e.nextID(), Data: rr})
}

func (e *Engine) queryRow(st *State, stmt *SQLStmt, params *sqlParams, handle, text, pos string) *RowResult {
	info := &StmtInfo{Stmt: stmt, Handle: handle, Table: strings.ToLower(stmt.Table), Kind: stmt.Kind, Params: params, DocsAt: st.g.Docs}
	defer e.recordStmt(st, info, text, pos)
	c := &evalCtx{e: e, st: st, params: params, table: info.Table}
	rr := &RowResult{}
	if stmt.Kind != "select" {
		rr.Found = e.fresh(st, "found", SBool)
		return rr
	}
	switch {
	case info.Table == "documents" && len(stmt.Join) == 0:
		coll, key, hasColl, hasKey, rest := c.keyOf(stmt.Where)
		if hasColl && !coll.Any {
			info.CollTerm = coll.T
		}
		if hasColl && hasKey && !coll.Any && !key.Any {
			info.Keyed, info.KeyTerm = true, key.T
			id := mkId(coll.T, key.T)
			row := Select(st.g.Docs, id, SRow)
			c.row, c.id = row, id
			rr.Found = And(rowPresent(row), c.where(andExprs(rest)))
			for _, it := range stmt.Sel {
				if it.Star {
					rr.Cols = append(rr.Cols, SQLVal{Any: true})
					continue
				}
				rr.Cols = append(rr.Cols, c.eval(it.Expr))
			}
			return rr
		}
		// aggregate / unkeyed single-row read
		if len(stmt.Sel) == 1 && stmt.Sel[0].Expr != nil && stmt.Sel[0].Expr.Op == "call" && stmt.Sel[0].Expr.Name == "min" {
			// SELECT min(col) FROM documents WHERE w : always one row; NULL iff no row matches;
			// otherwise it is the column of some matching row and <= every matching row's column
			m := e.fresh(st, "sqlmin", SInt)
			isnull := e.fresh(st, "sqlmin.null", SBool)
			wit := e.fresh(st, "sqlmin.wit", SDocId)
			c.row, c.id = Select(st.g.Docs, wit, SRow), wit
			wv := c.eval(stmt.Sel[0].Expr.Args[0])
			wcond := And(rowPresent(c.row), c.where(stmt.Where))
			iv := mkT("i", SDocId)
			c.row, c.id = Select(st.g.Docs, iv, SRow), iv
			av := c.eval(stmt.Sel[0].Expr.Args[0])
			acond := And(rowPresent(c.row), c.where(stmt.Where))
			if !wv.Any && !av.Any {
				st.assume(Implies(Not(isnull), And(wcond, Eq(m, wv.T))))
				{
					docsAt, params, where, arg := st.g.Docs, params, stmt.Where, stmt.Sel[0].Expr.Args[0]
					st.bulk = append(st.bulk, func(st *State, idx Term) Term {
						cc := &evalCtx{e: e, st: st, params: params, table: "documents"}
						cc.row, cc.id = Select(docsAt, idx, SRow), idx
						v := cc.eval(arg)
						if v.Any {
							return TTrue
						}
						return Implies(And(rowPresent(cc.row), cc.where(where)), And(Not(isnull), Le(m, v.T)))
					})
				}
				_ = acond
				_ = av
			}
			rr.Found = TTrue
			rr.Cols = []SQLVal{{T: m, Null: isnull}}
			return rr
		}
	case info.Table == "bucket":
		rr.Found = TTrue
		for _, it := range stmt.Sel {
			if it.Expr != nil && it.Expr.Op == "col" && strings.EqualFold(it.Expr.Name, "lastCas") {
				rr.Cols = append(rr.Cols, SQLVal{T: st.g.BucketLastCas, Null: TFalse})
			} else {
				rr.Cols = append(rr.Cols, SQLVal{Any: true})
			}
		}
		return rr
	case info.Table == "collections":
		var idv SQLVal
		hasID := false
		for _, cj := range conjuncts(stmt.Where) {
			if cj.Op == "=" && cj.Args[0].Op == "col" && strings.EqualFold(cj.Args[0].Name, "id") {
				idv, hasID = c.eval(cj.Args[1]), true
			}
		}
		if hasID && !idv.Any {
			info.CollTerm = idv.T
			rr.Found = e.fresh(st, "coll.found", SBool)
			for _, it := range stmt.Sel {
				if it.Expr != nil && it.Expr.Op == "col" && strings.EqualFold(it.Expr.Name, "lastCas") {
					rr.Cols = append(rr.Cols, SQLVal{T: Select(st.g.CollLastCas, idv.T, SInt), Null: TFalse})
				} else {
					rr.Cols = append(rr.Cols, SQLVal{Any: true})
				}
			}
			return rr
		}
	}
	// generic: unknown row
	for _, cj := range conjuncts(stmt.Where) {
		if cj.Op == "=" && cj.Args[0].Op == "col" && strings.EqualFold(cj.Args[0].Name, "collection") {
			if v := c.eval(cj.Args[1]); !v.Any {
				info.CollTerm = v.T
			}
		}
	}
	rr.Found = e.fresh(st, "found", SBool)
	if stmt.Kind == "pragma" {
		rr.Found = TTrue
	}
	for range stmt.Sel {
		rr.Cols = append(rr.Cols, SQLVal{Any: true})
	}
	return rr
}

// sqlRowScan: (*sql.Row).Scan(row, dest...)
func sqlRowScan(e *Engine, st *State, args []Value, depth int, pos string, k func(*State, Value)) {
	ra, ok := args[0].(VAbs)
	if !ok || ra.Kind != "row" {
		if _, isnil := args[0].(VNil); isnil {
			e.panicPath(st, depth-1, "Scan on nil *sql.Row at "+pos)
			return
		}
		k(st, e.havoc(st, types.Universe.Lookup("error").Type(), "scanerr"))
		return
	}
	rr := ra.Data.(*RowResult)
	dests := e.sliceElems(st, args[1])
	e.forkDBError(st, func(st *State, err Value) { k(st, err) }, func(st *State) {
		if !rr.Found.IsTrue() {
			st2 := st.clone()
			st2.assume(Not(rr.Found))
			k(st2, e.errNoRows(st2))
		}
		if rr.Found.IsFalse() {
			return
		}
		st.assume(rr.Found)
		e.assignDests(st, rr.Cols, dests, pos)
		k(st, VNil{})
	})
}

func (e *Engine) errNoRows(st *State) Value {
	for _, p := range e.prog.AllPackages() {
		if p.Pkg.Path() == "database/sql" {
			if g, ok := p.Members["ErrNoRows"].(*ssaGlobal); ok {
				return e.load(st, VPtr{Cell: e.globalCell(st, g)})
			}
		}
	}
	return e.sentinelErr(st, "database/sql.ErrNoRows")
}

func (e *Engine) assignDests(st *State, cols []SQLVal, dests []Value, pos string) {
	for i, d := range dests {
		iv, ok := d.(VIface)
		if !ok {
			continue
		}
		p, ok := iv.V.(VPtr)
		if !ok {
			continue
		}
		pt, ok := iv.Typ.(*types.Pointer)
		if !ok {
			continue
		}
		var col SQLVal
		if i < len(cols) {
			col = cols[i]
		} else {
			col = SQLVal{Any: true}
		}
		gv := e.sqlToGo(st, col, pt.Elem(), pos)
		e.store(st, p, gv)
		if sv, ok := gv.(VSym); ok {
			st.addTrace(TraceEv{Kind: "scanned", Pos: pos, Terms: map[string]Term{"v": sv.T}})
		}
	}
}

// sqlToGo converts a SQL value for Scan into a destination of Go type t (A-DRV).
func (e *Engine) sqlToGo(st *State, col SQLVal, t types.Type, pos string) Value {
	if typeIsPkg(t, "database/sql", "NullInt64") || typeIsPkg(t, "database/sql", "NullString") {
		stt := t.Underlying().(*types.Struct)
		fs := make([]Value, stt.NumFields())
		for i := range fs {
			f := stt.Field(i)
			switch {
			case f.Name() == "Valid":
				if col.Any {
					fs[i] = sym(e.fresh(st, "valid", SBool))
				} else {
					fs[i] = sym(Not(col.Null))
				}
			case !col.Any && scalarSort(f.Type()) == col.T.Sort:
				fs[i] = sym(col.T)
			default:
				fs[i] = e.havoc(st, f.Type(), "nullcol")
			}
		}
		return VStruct{fs}
	}
	s := scalarSort(t)
	if s == nil || col.Any {
		return e.havoc(st, t, "scan")
	}
	switch {
	case s == col.T.Sort:
		return sym(col.T)
	case s == SBool && col.T.Sort == SInt:
		return sym(Not(Eq(col.T, IntLit(0))))
	case s == SInt && col.T.Sort == SBool:
		return sym(Ite(col.T, IntLit(1), IntLit(0)))
	case s == SStr && col.T.Sort == SBytes:
		return sym(App(SStr, "s.ofbytes", col.T))
	case s == SBytes && col.T.Sort == SStr:
		return sym(App(SBytes, "b.ofstr", col.T))
	}
	return e.havoc(st, t, "scan")
}

// ---------------------------------------------------------------------------
// transactions

func sqlBegin(e *Engine, st *State, args []Value, depth int, pos string, k func(*State, Value)) {
	e.forkDBError(st, func(st *State, err Value) {
		k(st, VTuple{[]Value{VNil{}, err}})
	}, func(st *State) {
		if st.txn != nil {
			st.addTrace(TraceEv{Kind: "nested-begin", Pos: pos})
		}
		st.txn = &Txn{Snap: st.g.clone(), ID: e.nextID()}
		st.addTrace(TraceEv{Kind: "begin", Pos: pos})
		k(st, VTuple{[]Value{VAbs{Kind: "tx", ID: st.txn.ID}, VNil{}}})
	})
}

func sqlCommit(e *Engine, st *State, args []Value, depth int, pos string, k func(*State, Value)) {
	e.forkDBError(st, func(st *State, err Value) {
		st.addTrace(TraceEv{Kind: "commit-failed", Pos: pos})
		k(st, err)
	}, func(st *State) {
		st.addTrace(TraceEv{Kind: "commit", Pos: pos})
		st.txn = nil
		st.afterCommit = true
		k(st, VNil{})
	})
}

func sqlRollback(e *Engine, st *State, args []Value, depth int, pos string, k func(*State, Value)) {
	if st.txn != nil {
		st.g = st.txn.Snap.clone()
		st.txn = nil
	}
	st.addTrace(TraceEv{Kind: "rollback", Pos: pos})
	k(st, VNil{})
}

func sqlDBClose(e *Engine, st *State, args []Value, depth int, pos string, k func(*State, Value)) {
	st.addTrace(TraceEv{Kind: "dbclose", Pos: pos})
	k(st, VNil{})
}
