package main

import (
	"sort"
	"bytes"
	"context"
	"fmt"
	"os"
	"os/exec"
	"path/filepath"
	"strings"
	"sync"
	"sync/atomic"
	"time"
)

const smtPrelude2 = `(declare-const ABSENTROW Row)
(assert (not (r.present ABSENTROW)))
(declare-const JABSENT JsonV)
(assert (not (= JABSENT JNULL)))
(declare-fun s.sub (Str Int Int) Str)
(declare-fun b.sub (Bytes Int Int) Bytes)
(declare-fun s.ofrune (Int) Str)
(declare-fun bitand (Int Int) Int)
(declare-fun bitandnot (Int Int) Int)
(declare-fun bitor (Int Int) Int)
(declare-fun shl (Int Int) Int)
(declare-fun shr (Int Int) Int)
(declare-fun crc32c (Bytes) Int)
(declare-fun encvx (Bytes Int) Bytes)
(declare-fun collid (Str Str) Int)
(declare-fun j.ofstr (Str) JsonV)
(declare-fun j.ofint (Int) JsonV)
(declare-fun j.ofbool (Bool) JsonV)
(declare-fun j.mapid (JsonV) Int)
(declare-fun j.ofbytes (Bytes) JsonV)
(declare-fun j.ofmap ((Array Str JsonV)) JsonV)
(declare-fun j.asmap (JsonV) (Array Str JsonV))
(declare-fun j.asbytes (JsonV) Bytes)
(declare-fun j.asint (JsonV) Int)
(declare-fun m.len.j ((Array Str JsonV)) Int)
(declare-fun m.len.has ((Array Str Bool)) Int)
(declare-datatypes ((FeedEv 0)) (((FE_NIL) (mkFE (fe.opcode Int) (fe.key Bytes) (fe.value Bytes) (fe.cas Int) (fe.expiry Int)
   (fe.datatype Int) (fe.revno Int) (fe.collid Int)))))
`

type SolverResult struct {
	Status  string // unsat sat unknown timeout error
	Model   string
	Solver  string
	Seconds float64
	Raw     string
}

type Solver struct {
	tmp     string
	seq     int64
	timeout time.Duration
	stats   struct {
		sync.Mutex
		calls   map[string]int
		seconds map[string]float64
	}
}

func newSolver() (*Solver, error) {
	tmp, err := os.MkdirTemp("", "rosvc-smt-")
	if err != nil {
		return nil, err
	}
	s := &Solver{tmp: tmp, timeout: 10 * time.Second}
	s.stats.calls = map[string]int{}
	s.stats.seconds = map[string]float64{}
	return s, nil
}

func (s *Solver) cleanup() { os.RemoveAll(s.tmp) }

var solverCmds = map[string][]string{
	"z3-new": {"z3-new", "-smt2"},
	"z3":     {"z3", "-smt2"},
	"cvc5":   {"cvc5", "--lang=smt2", "--incremental", "--produce-models"},
}

// run executes one solver on a script and returns its stdout.
func (s *Solver) run(solver, script string, timeout time.Duration) (string, float64, error) {
	n := atomic.AddInt64(&s.seq, 1)
	path := filepath.Join(s.tmp, fmt.Sprintf("q%d.smt2", n))
	if err := os.WriteFile(path, []byte(script), 0600); err != nil {
		return "", 0, err
	}
	defer os.Remove(path)
	if d := os.Getenv("ROSVC_DUMP"); d != "" {
		os.WriteFile(filepath.Join(d, fmt.Sprintf("%s-q%d.smt2", solver, n)), []byte(script), 0644)
	}
	ctx, cancel := context.WithTimeout(context.Background(), timeout)
	defer cancel()
	args := append([]string{}, solverCmds[solver][1:]...)
	if solver == "z3" || solver == "z3-new" {
		args = append(args, fmt.Sprintf("-T:%d", int(timeout.Seconds())+1))
	} else {
		args = append(args, fmt.Sprintf("--tlimit=%d", timeout.Milliseconds()))
	}
	args = append(args, path)
	cmd := exec.CommandContext(ctx, solverCmds[solver][0], args...)
	var out bytes.Buffer
	cmd.Stdout = &out
	cmd.Stderr = &out
	t0 := time.Now()
	err := cmd.Run()
	el := time.Since(t0).Seconds()
	s.stats.Lock()
	s.stats.calls[solver]++
	s.stats.seconds[solver] += el
	s.stats.Unlock()
	if ctx.Err() != nil {
		return out.String(), el, fmt.Errorf("timeout")
	}
	_ = err // z3 4.8.12 exits 1 on get-model after unsat: rely on the output
	return out.String(), el, nil
}

// feasible asks whether the path condition of st is satisfiable (used for unwinding assertions and pruning).
func (s *Solver) feasible(e *Engine, st *State) bool {
	e.forkChecks++
	script := e.scriptHeader(st, nil) + "(check-sat)\n"
	out, _, err := s.run("z3-new", script, 5*time.Second)
	if err != nil {
		return true
	}
	first := strings.TrimSpace(strings.SplitN(out, "\n", 2)[0])
	return first != "unsat"
}

// scriptHeader renders everything up to and including the path condition.
func (e *Engine) scriptHeader(st *State, pre *State) string {
	var sb strings.Builder
	sb.WriteString(smtPrelude)
	sb.WriteString(smtPrelude2)
	if e.contracts != nil {
		for _, l := range e.contracts.smt {
			sb.WriteString(l)
			sb.WriteByte('\n')
		}
		for _, l := range e.contracts.smtX {
			sb.WriteString(l)
			sb.WriteByte('\n')
		}
	}
	sb.WriteString(e.strLitDecls())
	for p := range e.ufPreds {
		fmt.Fprintf(&sb, "(declare-fun %s (Str) Bool)\n", p)
	}
	seen := map[string]bool{}
	emit := func(ds []string) {
		for _, d := range ds {
			if !seen[d] {
				seen[d] = true
				sb.WriteString(d)
				sb.WriteByte('\n')
			}
		}
	}
	emit(st.decls)
	var ins []string
	inputDecls.Range(func(k, _ interface{}) bool { ins = append(ins, k.(string)); return true })
	sort.Strings(ins)
	emit(ins)
	if pre != nil {
		emit(pre.decls)
	}
	for _, c := range st.pc {
		fmt.Fprintf(&sb, "(assert %s)\n", c.S)
	}
	if pre != nil {
		for _, c := range pre.pc {
			fmt.Fprintf(&sb, "(assert %s)\n", c.S)
		}
	}
	return sb.String()
}

// checkAll runs one session: header, then push / assert (not clause) / check-sat / pop for each goal.
// Returns one status per goal ("unsat", "sat", "unknown", "timeout", "error").
func (s *Solver) checkAll(solver, header string, goals []Term, getValues []string, timeout time.Duration) ([]SolverResult, error) {
	var sb strings.Builder
	sb.WriteString(header)
	for _, g := range goals {
		sb.WriteString("(push 1)\n")
		fmt.Fprintf(&sb, "(assert (not %s))\n", g.S)
		sb.WriteString("(check-sat)\n")
		sb.WriteString("(pop 1)\n")
	}
	out, el, err := s.run(solver, sb.String(), timeout)
	lines := strings.Split(strings.TrimSpace(out), "\n")
	res := make([]SolverResult, len(goals))
	li := 0
	for i := range goals {
		res[i] = SolverResult{Status: "timeout", Solver: solver, Seconds: el / float64(len(goals))}
		for li < len(lines) {
			l := strings.TrimSpace(lines[li])
			li++
			if l == "unsat" || l == "sat" || l == "unknown" {
				if res[i].Status != "error" {
					res[i].Status = l
				}
				break // a verdict that follows a solver error for this goal is meaningless: it stays "error"
			}
			if strings.HasPrefix(l, "(error") {
				res[i].Status = "error"
				res[i].Raw = l
				// an error in the header poisons everything
				if err == nil {
					err = fmt.Errorf("solver error: %s", l)
				}
			}
		}
	}
	return res, err
}

// model asks one solver for a model of header ∧ ¬goal, with get-value on the given terms.
func (s *Solver) model(solver, header string, goal Term, values []string, timeout time.Duration) SolverResult {
	var sb strings.Builder
	sb.WriteString(header)
	fmt.Fprintf(&sb, "(assert (not %s))\n(check-sat)\n", goal.S)
	if len(values) > 0 {
		fmt.Fprintf(&sb, "(get-value (%s))\n", strings.Join(values, " "))
	}
	out, el, err := s.run(solver, sb.String(), timeout)
	r := SolverResult{Solver: solver, Seconds: el, Raw: out}
	if err != nil {
		r.Status = "timeout"
		return r
	}
	parts := strings.SplitN(strings.TrimSpace(out), "\n", 2)
	r.Status = strings.TrimSpace(parts[0])
	if len(parts) > 1 {
		r.Model = parts[1]
	}
	if r.Status != "sat" && r.Status != "unsat" && r.Status != "unknown" {
		r.Status = "error"
	}
	return r
}
