package main

// Models (assumed contracts) of functions outside package rosmar, and ghost hooks for a few functions inside.

import (
	"fmt"
	"go/types"
	"strings"
)

type modelFn func(e *Engine, st *State, args []Value, depth int, pos string, k func(*State, Value))

var models map[string]modelFn
var ifaceModels map[string]modelFn

func noop(e *Engine, st *State, args []Value, depth int, pos string, k func(*State, Value)) { k(st, nil) }

func init() {
	models = map[string]modelFn{
		// logging / tracing: A-LOG
		"github.com/couchbaselabs/rosmar.traceEnter": noop,
		"github.com/couchbaselabs/rosmar.traceExit":  noop,
		"github.com/couchbaselabs/rosmar.trace":      noop,
		"github.com/couchbaselabs/rosmar.debug":      noop,
		"github.com/couchbaselabs/rosmar.info":       noop,
		"github.com/couchbaselabs/rosmar.warn":       noop,
		"github.com/couchbaselabs/rosmar.logError":   noop,
		"github.com/couchbaselabs/rosmar.log":        noop,
		"time.Sleep":                                  noop,
		"sync/atomic.AddInt32":                        havocResult("atomic"),
		"sync/atomic.AddUint32":                       havocResult("atomic"),
		"(*sync/atomic.Bool).Load":                    atomicBoolLoad,
		"(*sync/atomic.Bool).Store":                   atomicBoolStore,
		"(*sync.Mutex).Lock":                          mutexLock,
		"(*sync.Mutex).Unlock":                        mutexUnlock,
		"(*sync.Cond).Signal":                         noop,
		"(*sync.Cond).Broadcast":                      condBroadcast,
		"(*sync.Cond).Wait":                           condWait,
		"sync.NewCond":                                newCond,
		"(*sync.Once).Do":                             noop,
		"time.Now":                                    timeNow,
		"(time.Time).Unix":                            timeUnix,
		"(time.Time).UnixNano":                        timeUnixNano,
		"time.AfterFunc":                              timeAfterFunc,
		"(*time.Timer).Reset":                         timerReset,
		"(*time.Timer).Stop":                          timerStop,
		"fmt.Sprintf":                                 fmtSprintf,
		"fmt.Errorf":                                  fmtErrorf,
		"errors.New":                                  errorsNew,
		"errors.Is":                                   errorsIs,
		"errors.As":                                   errorsAs,
		"strconv.FormatUint":                          strconvFormat,
		"strconv.FormatInt":                           strconvFormat,
		"strconv.Itoa":                                strconvFormat,
		"strconv.AppendUint":                          strconvAppend,
		"strconv.AppendInt":                           strconvAppend,
		"strings.ContainsAny":                         stringsContainsAny,
		"strings.Contains":                            stringsContains,
		"strings.Split":                               stringsSplit,
		"strings.Replace":                             stringsReplace,
		"strings.ReplaceAll":                          stringsReplaceAll,
		"(net/url.Values).Add":                        urlValuesSet,
		"(net/url.Values).Set":                        urlValuesSet,
		"encoding/json.Marshal":                       jsonMarshal,
		"encoding/json.Unmarshal":                     jsonUnmarshal,
		"hash/crc32.MakeTable":                        havocResult("crctable"),
		"hash/crc32.Checksum":                         crcChecksum,
		"(encoding/binary.littleEndian).PutUint64":    noop,
		"container/list.New":                          listNew,
		"(*container/list.List).PushFront":            listPushFront,
		"(*container/list.List).Len":                  listLen,
		"(*container/list.List).Back":                 listBack,
		"(*container/list.List).Remove":               listRemove,
		"database/sql.Named":                          sqlNamed,
		"(*database/sql.Tx).Exec":                     sqlExecModel,
		"(*database/sql.Tx).QueryRow":                 sqlQueryRowModel,
		"(*database/sql.Tx).Query":                    sqlQueryModel,
		"(*database/sql.DB).Exec":                     sqlExecModel,
		"(*database/sql.DB).QueryRow":                 sqlQueryRowModel,
		"(*database/sql.DB).Query":                    sqlQueryModel,
		"(*database/sql.DB).Begin":                    sqlBegin,
		"(*database/sql.DB).Close":                    sqlDBClose,
		"(*database/sql.Tx).Commit":                   sqlCommit,
		"(*database/sql.Tx).Rollback":                 sqlRollback,
		"(*database/sql.Row).Scan":                    sqlRowScan,
		"(*database/sql.Rows).Next":                   sqlRowsNext,
		"(*database/sql.Rows).Scan":                   sqlRowsScan,
		"(*database/sql.Rows).Close":                  sqlRowsClose,
		"(*database/sql.Rows).Err":                    sqlRowsErr,
		"(*database/sql.Rows).Columns":                sqlRowsColumns,
		"github.com/couchbase/sg-bucket.EncodeValueWithXattrs": encodeValueWithXattrs,
		// ghost hooks inside rosmar
		"(*github.com/couchbaselabs/rosmar.Collection).postNewEvent": hookPostNewEvent,
	}
	registerBufModels()
	ifaceModels = map[string]modelFn{
		"(sync.Locker).Lock":   mutexLock,
		"(sync.Locker).Unlock": mutexUnlock,
		"(github.com/couchbaselabs/rosmar.clock).getTime": clockGetTime,
		"(error).Error": func(e *Engine, st *State, args []Value, depth int, pos string, k func(*State, Value)) {
			k(st, sym(e.fresh(st, "errmsg", SStr)))
		},
	}
}

func havocResult(hint string) modelFn {
	return func(e *Engine, st *State, args []Value, depth int, pos string, k func(*State, Value)) {
		t := e.fresh(st, hint, SInt)
		k(st, sym(t))
	}
}

// ---------------------------------------------------------------------------
// abstract handles for input objects of dependency types

func (e *Engine) abstractHandle(st *State, t types.Type, name string) (Value, bool) {
	switch {
	case typeIsPkg(t, "database/sql", "Tx"):
		return VAbs{Kind: "tx", ID: e.namedID("tx:" + name), Data: name}, true
	case typeIsPkg(t, "database/sql", "Rows"):
		if _, isPtr := t.(*types.Pointer); isPtr {
			ro := &RowsObj{ID: e.namedID("rows:" + name)}
			return VAbs{Kind: "rows", ID: ro.ID, Data: ro}, true
		}
	case typeIsPkg(t, "database/sql", "DB"):
		return VAbs{Kind: "pool", ID: e.namedID("pool:" + name), Data: name}, true
	case typeIsPkg(t, "sync", "Mutex"):
		if _, isPtr := t.(*types.Pointer); isPtr {
			cell := e.namedCell(st, name, VStruct{})
			return VPtr{Cell: cell}, true
		}
		return VStruct{}, true
	case typeIsPkg(t, "time", "Timer"):
		if _, isPtr := t.(*types.Pointer); isPtr {
			// nil-able timer: symbolic "is nil" flag
			isnil := st.declare("in."+sanitize(name)+".isnil", SBool)
			return VAbs{Kind: "timer", ID: e.namedID("timer:" + name), Data: &TimerObj{Name: name, NilT: isnil}}, true
		}
	case typeIsPkg(t, "container/list", "List"):
		if _, isPtr := t.(*types.Pointer); isPtr {
			isnil := st.declare("in."+sanitize(name)+".isnil", SBool)
			seq := st.declare("in."+sanitize(name)+".seq", SEvSeq)
			ln := st.declare("in."+sanitize(name)+".len", SInt)
			st.assume(Ge(ln, IntLit(0)))
			cell := e.namedCell(st, "list:"+name, &ListObj{Seq: seq, Len: ln, NilT: isnil})
			return VAbs{Kind: "list", ID: cell}, true
		}
	case typeIsPkg(t, "sync", "Cond"):
		if pt, isPtr := t.(*types.Pointer); isPtr {
			// *sync.Cond: a struct cell whose L field is a *sync.Mutex with its own identity
			lcell := e.namedCell(st, name+".L", VStruct{})
			stt := pt.Elem().Underlying().(*types.Struct)
			fs := make([]Value, stt.NumFields())
			for i := range fs {
				if stt.Field(i).Name() == "L" {
					fs[i] = VIface{Typ: types.NewPointer(e.syncMutexType()), V: VPtr{Cell: lcell}}
				} else {
					fs[i] = VStruct{}
				}
			}
			cell := e.namedCell(st, name, VStruct{fs})
			return VPtr{Cell: cell}, true
		}
	case typeIsPkg(t, "context", "Context"):
		return VAbs{Kind: "ctx", ID: e.namedID("ctx:" + name)}, true
	}
	return nil, false
}

var SEvSeq = &Sort{"(Array Int FeedEv)"}

type TimerObj struct {
	Name string
	NilT Term
}

type ListObj struct {
	Seq  Term // (Array Int FeedEv): index 0 = back (oldest) ... Len-1 = front (newest)
	Len  Term
	NilT Term
}

// namedID: a stable identity for an input object that is not stored in the heap.
func (e *Engine) namedID(name string) int {
	id, ok := e.lazyCells[name]
	if !ok {
		e.nextCell++
		id = e.nextCell
		e.lazyCells[name] = id
	}
	return id
}

// namedCell returns the heap cell of an input object identified by its access path (same cell in every state).
func (e *Engine) namedCell(st *State, name string, init Value) int {
	cell, ok := e.lazyCells[name]
	if !ok {
		e.nextCell++
		cell = e.nextCell
		e.lazyCells[name] = cell
		e.cellNames[cell] = name
	}
	if _, present := st.heap[cell]; !present {
		st.heap[cell] = init
	}
	return cell
}

func (e *Engine) ptrName(p VPtr) string {
	n, ok := e.cellNames[p.Cell]
	if !ok {
		n = fmt.Sprintf("cell%d", p.Cell)
	}
	return n + p.Path
}

// abstractInvoke models interface method calls on abstract objects.
func (e *Engine) abstractInvoke(st *State, recv VIface, m *types.Func, args []Value, c interface{}, depth int, pos string, k func(*State, Value)) bool {
	a, ok := recv.V.(VAbs)
	if !ok {
		return false
	}
	switch a.Kind {
	case "result":
		r := a.Data.(*ExecResult)
		switch m.Name() {
		case "RowsAffected":
			k(st, VTuple{[]Value{sym(r.Rows), VNil{}}})
			return true
		case "LastInsertId":
			k(st, VTuple{[]Value{sym(r.LastID), VNil{}}})
			return true
		}
	case "tx", "pool":
		full := []Value{a}
		full = append(full, args...)
		switch m.Name() {
		case "Exec":
			sqlExecModel(e, st, full, depth, pos, k)
			return true
		case "QueryRow":
			sqlQueryRowModel(e, st, full, depth, pos, k)
			return true
		case "Query":
			sqlQueryModel(e, st, full, depth, pos, k)
			return true
		}
	}
	return false
}

// ---------------------------------------------------------------------------
// sync

func mutexLock(e *Engine, st *State, args []Value, depth int, pos string, k func(*State, Value)) {
	name := e.lockName(st, args[0])
	if st.holds(name) {
		st.addTrace(TraceEv{Kind: "deadlock", Text: name, Pos: pos})
		st.deadlock = "re-lock of " + name + " at " + pos
		e.endPath(st)
		return
	}
	st.locks = append(st.locks, name)
	st.addTrace(TraceEv{Kind: "lock", Text: name, Pos: pos})
	k(st, nil)
}

func mutexUnlock(e *Engine, st *State, args []Value, depth int, pos string, k func(*State, Value)) {
	name := e.lockName(st, args[0])
	found := false
	for i := len(st.locks) - 1; i >= 0; i-- {
		if st.locks[i] == name {
			st.locks = append(st.locks[:i:i], st.locks[i+1:]...)
			found = true
			break
		}
	}
	if !found {
		st.addTrace(TraceEv{Kind: "badunlock", Text: name, Pos: pos})
	}
	st.addTrace(TraceEv{Kind: "unlock", Text: name, Pos: pos})
	k(st, nil)
}

func (e *Engine) lockName(st *State, v Value) string {
	switch p := v.(type) {
	case VPtr:
		return e.ptrName(p)
	case VIface:
		return e.lockName(st, p.V)
	case VAbs:
		return fmt.Sprintf("%s#%d", p.Kind, p.ID)
	}
	return "lock?" + showValue(v)
}

func newCond(e *Engine, st *State, args []Value, depth int, pos string, k func(*State, Value)) {
	t := e.syncCondType()
	if t == nil {
		k(st, VAbs{Kind: "cond", ID: e.nextID(), Data: args[0]})
		return
	}
	stt := t.Underlying().(*types.Struct)
	fs := make([]Value, stt.NumFields())
	for i := range fs {
		if stt.Field(i).Name() == "L" {
			fs[i] = args[0]
		} else {
			fs[i] = VStruct{}
		}
	}
	cell := e.newCell(st, VStruct{fs})
	k(st, VPtr{Cell: cell})
}

func (e *Engine) syncType(name string) types.Type {
	for _, p := range e.prog.AllPackages() {
		if p.Pkg.Path() == "sync" {
			if tn := p.Pkg.Scope().Lookup(name); tn != nil {
				return tn.Type()
			}
		}
	}
	return nil
}

func (e *Engine) syncMutexType() types.Type { return e.syncType("Mutex") }
func (e *Engine) syncCondType() types.Type  { return e.syncType("Cond") }

func condBroadcast(e *Engine, st *State, args []Value, depth int, pos string, k func(*State, Value)) {
	st.addTrace(TraceEv{Kind: "broadcast", Pos: pos})
	k(st, nil)
}

func condWait(e *Engine, st *State, args []Value, depth int, pos string, k func(*State, Value)) {
	// Wait releases and re-acquires the lock: everything guarded by it may have changed. The lists modelled in the
	// heap are havocked here; nil-ness of list fields is havocked by the loop rule (`loop N havoc` directive).
	st.addTrace(TraceEv{Kind: "condwait", Pos: pos})
	for cell, v := range st.heap {
		if l, ok := v.(*ListObj); ok {
			ln := e.fresh(st, "list.len", SInt)
			st.assume(Ge(ln, IntLit(0)))
			st.heap[cell] = &ListObj{Seq: e.fresh(st, "list.seq", SEvSeq), Len: ln, NilT: l.NilT}
		}
	}
	k(st, nil)
}

// ---------------------------------------------------------------------------
// time

func timeNow(e *Engine, st *State, args []Value, depth int, pos string, k func(*State, Value)) {
	st.clockN++
	secs := e.fresh(st, fmt.Sprintf("now%d.unix", st.clockN), SInt)
	// seconds since the epoch: below 2^32 - 30 days (A-INT) and non-decreasing along the path
	// A-INT: the wall clock reads a time after January 1970 + 30 days and before 2^32 - 30 days
	st.assume(And(Gt(secs, IntLit(2592000)), Lt(secs, IntLit(4294967296-2592000))))
	if st.lastNow.S != "" {
		st.assume(Ge(secs, st.lastNow))
	}
	st.lastNow = secs
	st.nows = append(st.nows, secs)
	nanos := e.fresh(st, fmt.Sprintf("now%d.nano", st.clockN), SInt)
	k(st, VAbs{Kind: "time", ID: e.nextID(), Data: [2]Term{secs, nanos}})
}

func timeUnix(e *Engine, st *State, args []Value, depth int, pos string, k func(*State, Value)) {
	if a, ok := args[0].(VAbs); ok && a.Kind == "time" {
		k(st, sym(a.Data.([2]Term)[0]))
		return
	}
	k(st, e.havoc(st, types.Typ[types.Int64], "unix"))
}

func timeUnixNano(e *Engine, st *State, args []Value, depth int, pos string, k func(*State, Value)) {
	if a, ok := args[0].(VAbs); ok && a.Kind == "time" {
		k(st, sym(a.Data.([2]Term)[1]))
		return
	}
	k(st, e.havoc(st, types.Typ[types.Int64], "unixnano"))
}

func clockGetTime(e *Engine, st *State, args []Value, depth int, pos string, k func(*State, Value)) {
	// the HLC's clock is an unconstrained input (C04: "whatever the clock does")
	t := e.fresh(st, "clockdraw", SInt)
	st.assume(And(Ge(t, IntLit(0)), Le(t, mkT("18446744073709551615", SInt))))
	st.clockDraws = append(st.clockDraws, t)
	k(st, sym(t))
}

func timeAfterFunc(e *Engine, st *State, args []Value, depth int, pos string, k func(*State, Value)) {
	st.addTrace(TraceEv{Kind: "timer.new", Args: args, Pos: pos})
	st.addTrace(TraceEv{Kind: "timer.arm", Args: args, Pos: pos})
	k(st, VAbs{Kind: "timer", ID: e.nextID(), Data: &TimerObj{Name: "new", NilT: TFalse}})
}

func timerReset(e *Engine, st *State, args []Value, depth int, pos string, k func(*State, Value)) {
	if !e.timerNilCheck(st, args[0], depth, pos) {
		return
	}
	st.addTrace(TraceEv{Kind: "timer.arm", Args: args, Pos: pos})
	k(st, sym(e.fresh(st, "wasactive", SBool)))
}

func timerStop(e *Engine, st *State, args []Value, depth int, pos string, k func(*State, Value)) {
	if !e.timerNilCheck(st, args[0], depth, pos) {
		return
	}
	st.addTrace(TraceEv{Kind: "timer.stop", Args: args, Pos: pos})
	k(st, sym(e.fresh(st, "wasactive", SBool)))
}

func (e *Engine) timerNilCheck(st *State, v Value, depth int, pos string) bool {
	switch t := v.(type) {
	case VNil:
		e.panicPath(st, depth-1, "nil timer dereference at "+pos)
		return false
	case VAbs:
		if to, ok := t.Data.(*TimerObj); ok && !to.NilT.IsFalse() {
			st2 := st.clone()
			st2.assume(to.NilT)
			e.panicPath(st2, depth-1, "nil timer dereference at "+pos)
			st.assume(Not(to.NilT))
		}
	}
	return true
}

// ---------------------------------------------------------------------------
// fmt / errors / strings / strconv

// fmtSprintf folds constant formats with constant string arguments; %d of a symbolic integer becomes a hole.
func fmtSprintf(e *Engine, st *State, args []Value, depth int, pos string, k func(*State, Value)) {
	if s, ok := e.sprintf(st, args); ok {
		k(st, sym(e.strLit(s)))
		return
	}
	// uninterpreted string of the arguments
	var ts []Term
	for _, a := range e.sliceElems(st, args[1]) {
		ts = append(ts, e.valueKeyTerm(st, a))
	}
	if fs, ok := args[0].(VSym); ok {
		ts = append([]Term{fs.T}, ts...)
	}
	k(st, sym(e.uninterpretedStr(st, "sprintf", ts)))
}

// uninterpretedStr returns a Str term that is a function of the given terms (functional consistency by name).
func (e *Engine) uninterpretedStr(st *State, fn string, ts []Term) Term {
	var parts []string
	for _, t := range ts {
		parts = append(parts, t.S)
	}
	key := fn + "(" + strings.Join(parts, ",") + ")"
	if n, ok := e.ufStrs[key]; ok {
		return st.declare(n, SStr)
	}
	n := fmt.Sprintf("%s!%d", fn, len(e.ufStrs))
	e.ufStrs[key] = n
	return st.declare(n, SStr)
}

func (e *Engine) valueKeyTerm(st *State, v Value) Term {
	switch a := v.(type) {
	case VSym:
		return a.T
	case VIface:
		return e.valueKeyTerm(st, a.V)
	}
	return mkT(sanitize(showValue(v)), SStr)
}

func (e *Engine) sliceElems(st *State, v Value) []Value {
	sl, ok := v.(VSlice)
	if !ok {
		return nil
	}
	arr, _ := st.heap[sl.Cell].(VStruct)
	var out []Value
	for i := sl.Lo; i < sl.Hi && i < len(arr.F); i++ {
		out = append(out, arr.F[i])
	}
	return out
}

func (e *Engine) sprintf(st *State, args []Value) (string, bool) {
	fs, ok := args[0].(VSym)
	if !ok {
		return "", false
	}
	format, ok := e.reverseStr(fs.T.S)
	if !ok {
		return "", false
	}
	elems := e.sliceElems(st, args[1])
	var sb strings.Builder
	ai := 0
	for i := 0; i < len(format); i++ {
		ch := format[i]
		if ch != '%' || i+1 >= len(format) {
			sb.WriteByte(ch)
			continue
		}
		i++
		verb := format[i]
		if verb == '%' {
			sb.WriteByte('%')
			continue
		}
		if ai >= len(elems) {
			return "", false
		}
		arg := elems[ai]
		ai++
		if iv, ok := arg.(VIface); ok {
			arg = iv.V
		}
		as, ok := arg.(VSym)
		if !ok {
			return "", false
		}
		switch verb {
		case 's', 'v':
			if as.T.Sort == SStr {
				lit, ok := e.reverseStr(as.T.S)
				if !ok {
					// a symbolic string spliced into the text: kept as a hole
					sb.WriteString(e.hole(as.T))
					continue
				}
				sb.WriteString(lit)
				continue
			}
			return "", false
		case 'd':
			if n, ok := as.T.intConst(); ok {
				sb.WriteString(n.String())
				continue
			}
			sb.WriteString(e.hole(as.T))
		default:
			return "", false
		}
	}
	return sb.String(), true
}

// hole registers a symbolic term embedded in a string (e.g. "collection=%d") and returns its marker.
func (e *Engine) hole(t Term) string {
	for i, h := range e.holes {
		if h.S == t.S {
			return fmt.Sprintf("\x01H%d\x02", i)
		}
	}
	e.holes = append(e.holes, t)
	return fmt.Sprintf("\x01H%d\x02", len(e.holes)-1)
}

// fmtErrorf: an error value; %w keeps the wrapped error reachable for errors.Is/As.
func fmtErrorf(e *Engine, st *State, args []Value, depth int, pos string, k func(*State, Value)) {
	var wrapped Value
	if fs, ok := args[0].(VSym); ok {
		if format, ok := e.reverseStr(fs.T.S); ok && strings.Contains(format, "%w") {
			for _, el := range e.sliceElems(st, args[1]) {
				if iv, ok := el.(VIface); ok {
					if isErrorType(iv.Typ) {
						wrapped = iv
					}
				}
			}
		}
	}
	k(st, VIface{Typ: wrapErrType, V: VAbs{Kind: "wraperr", ID: e.nextID(), Data: wrapped}})
}

var wrapErrType = types.NewPointer(types.NewNamed(types.NewTypeName(0, nil, "wrapError", nil), types.NewStruct(nil, nil), nil))

func isErrorType(t types.Type) bool {
	if t == nil {
		return false
	}
	if t == sentinelType || t == wrapErrType {
		return true
	}
	errT := types.Universe.Lookup("error").Type().Underlying().(*types.Interface)
	return types.Implements(t, errT)
}

func errorsNew(e *Engine, st *State, args []Value, depth int, pos string, k func(*State, Value)) {
	k(st, VIface{Typ: sentinelType, V: VAbs{Kind: "sentinel", ID: e.nextID(), Data: "errors.New@" + pos}})
}

// unwrapChain lists err and everything it wraps.
func (e *Engine) unwrapChain(st *State, err Value) ([]VIface, bool) {
	var chain []VIface
	for i := 0; i < 8; i++ {
		iv, ok := err.(VIface)
		if !ok {
			_, isnil := err.(VNil)
			return chain, isnil || err == nil
		}
		chain = append(chain, iv)
		a, ok := iv.V.(VAbs)
		if ok && a.Kind == "wraperr" {
			if a.Data == nil {
				return chain, true
			}
			if w, ok := a.Data.(Value); ok && w != nil {
				err = w
				continue
			}
			return chain, true
		}
		// *DatabaseError{original}
		if typeIsPkg(iv.Typ, "github.com/couchbaselabs/rosmar", "DatabaseError") {
			if p, ok := iv.V.(VPtr); ok {
				if s, ok := e.load(st, p).(VStruct); ok && len(s.F) == 1 {
					err = s.F[0]
					continue
				}
			}
		}
		return chain, true
	}
	return chain, true
}

func errorsIs(e *Engine, st *State, args []Value, depth int, pos string, k func(*State, Value)) {
	chain, complete := e.unwrapChain(st, args[0])
	res := TFalse
	for _, c := range chain {
		res = Or(res, e.valueEq(st, c, args[1]))
	}
	if !complete {
		res = Or(res, e.fresh(st, "errors.Is", SBool))
	}
	k(st, sym(res))
}

func errorsAs(e *Engine, st *State, args []Value, depth int, pos string, k func(*State, Value)) {
	if id, isOpaque := opaqueErrID(args[0]); isOpaque {
		if tiv, ok := args[1].(VIface); ok {
			if pt, ok := tiv.Typ.(*types.Pointer); ok {
				if n, ok := pt.Elem().(*types.Named); ok {
					k(st, sym(st.declare(fmt.Sprintf("err.%d.is.%s", id, n.Obj().Name()), SBool)))
					return
				}
			}
		}
	}
	// target is *T inside an interface
	tiv, ok := args[1].(VIface)
	if !ok {
		k(st, sym(e.fresh(st, "errors.As", SBool)))
		return
	}
	pt, ok := tiv.Typ.(*types.Pointer)
	if !ok {
		k(st, sym(e.fresh(st, "errors.As", SBool)))
		return
	}
	chain, complete := e.unwrapChain(st, args[0])
	for _, c := range chain {
		if c.Typ != nil && types.Identical(c.Typ, pt.Elem()) {
			if p, ok := tiv.V.(VPtr); ok {
				e.store(st, p, c.V)
			}
			k(st, sym(TTrue))
			return
		}
	}
	if !complete {
		k(st, sym(e.fresh(st, "errors.As", SBool)))
		return
	}
	k(st, sym(TFalse))
}

func strconvFormat(e *Engine, st *State, args []Value, depth int, pos string, k func(*State, Value)) {
	if s, ok := args[0].(VSym); ok {
		base10 := len(args) < 2
		if len(args) >= 2 {
			if b, ok := args[1].(VSym); ok {
				if c, ok := b.T.intConst(); ok && c.Int64() == 10 {
					base10 = true
				}
			}
		}
		if base10 {
			// the decimal rendering of an integer: the same text fmt's %d produces (a literal with a hole)
			if c, ok := s.T.intConst(); ok {
				k(st, sym(e.strLit(c.String())))
				return
			}
			k(st, sym(e.strLit(e.hole(s.T))))
			return
		}
		k(st, sym(App(SStr, "s.ofint", s.T)))
		return
	}
	k(st, sym(e.fresh(st, "fmtuint", SStr)))
}

// strconvAppend: strconv.AppendUint/AppendInt(dst, i, base). Appending to a nil destination yields the bytes of the
// rendering FormatUint/FormatInt produce; any other destination gives unknown bytes.
func strconvAppend(e *Engine, st *State, args []Value, depth int, pos string, k func(*State, Value)) {
	dstNil := false
	switch d := args[0].(type) {
	case VNil:
		dstNil = true
	case VSym:
		dstNil = d.T.S == nullB.S
	}
	if dstNil && len(args) == 3 {
		strconvFormat(e, st, args[1:], depth, pos, func(st *State, v Value) {
			if sv, ok := v.(VSym); ok && sv.T.Sort == SStr {
				r := App(SBytes, "b.ofstr", sv.T)
				st.fact(Not(Eq(r, nullB)))
				k(st, sym(r))
				return
			}
			k(st, sym(e.fresh(st, "appenduint", SBytes)))
		})
		return
	}
	r := e.fresh(st, "appenduint", SBytes)
	st.fact(Not(Eq(r, nullB)))
	k(st, sym(r))
}

func stringsContainsAny(e *Engine, st *State, args []Value, depth int, pos string, k func(*State, Value)) {
	s, ok1 := args[0].(VSym)
	c, ok2 := args[1].(VSym)
	if ok1 && ok2 {
		if chars, ok := e.reverseStr(c.T.S); ok {
			if lit, ok := e.reverseStr(s.T.S); ok {
				k(st, sym(BoolLit(strings.ContainsAny(lit, chars))))
				return
			}
			if chars == "$.[]" {
				k(st, sym(App(SBool, "s.badxattrkey", s.T)))
				return
			}
			k(st, sym(App(SBool, "s.containsany."+sanitize(fmt.Sprintf("%x", chars)), s.T)))
			e.ufPreds["s.containsany."+sanitize(fmt.Sprintf("%x", chars))] = true
			return
		}
	}
	k(st, sym(e.fresh(st, "containsany", SBool)))
}

func stringsContains(e *Engine, st *State, args []Value, depth int, pos string, k func(*State, Value)) {
	k(st, sym(e.fresh(st, "contains", SBool)))
}

func stringsSplit(e *Engine, st *State, args []Value, depth int, pos string, k func(*State, Value)) {
	// result: non-empty []string (strings.Split never returns an empty slice for a non-empty separator)
	name := fmt.Sprintf("split%d", e.nextID())
	arr := st.declare(name+".arr", SStrSeq)
	ln := st.declare(name+".len", SInt)
	st.assume(Ge(ln, IntLit(1)))
	k(st, VAbs{Kind: "strslice", ID: e.nextID(), Data: &StrSlice{Arr: arr, Len: ln, Nil: TFalse}})
}

func stringsReplace(e *Engine, st *State, args []Value, depth int, pos string, k func(*State, Value)) {
	var ts []Term
	for _, a := range args {
		ts = append(ts, e.valueKeyTerm(st, a))
	}
	k(st, sym(e.uninterpretedStr(st, "replace", ts)))
}

// strings.ReplaceAll(s, old, new) == strings.Replace(s, old, new, -1)
func stringsReplaceAll(e *Engine, st *State, args []Value, depth int, pos string, k func(*State, Value)) {
	stringsReplace(e, st, append(append([]Value{}, args...), sym(IntLit(-1))), depth, pos, k)
}

// url.Values.Add/Set with constant key: recorded as a connection option (OpenBucket's SQLite parameters)
func urlValuesSet(e *Engine, st *State, args []Value, depth int, pos string, k func(*State, Value)) {
	if len(args) >= 3 {
		if ks, ok := args[1].(VSym); ok {
			if key, ok := e.reverseStr(ks.T.S); ok {
				if vs, ok := args[2].(VSym); ok {
					st.addTrace(TraceEv{Kind: "urlopt", Text: key, Pos: pos, Terms: map[string]Term{"v": vs.T}})
				}
			}
		}
	}
	k(st, nil)
}

// sync/atomic.Bool: the flag lives in the struct's last field (v uint32); sequentially consistent, no tearing (A-MUTEX)
func atomicBoolTerm(e *Engine, st *State, recv Value) (VPtr, VStruct, Term, bool) {
	p, ok := recv.(VPtr)
	if !ok {
		return VPtr{}, VStruct{}, Term{}, false
	}
	sv, ok := e.load(st, p).(VStruct)
	if !ok || len(sv.F) == 0 {
		return VPtr{}, VStruct{}, Term{}, false
	}
	if f, ok := sv.F[len(sv.F)-1].(VSym); ok && f.T.Sort == SInt {
		return p, sv, f.T, true
	}
	return VPtr{}, VStruct{}, Term{}, false
}

func atomicBoolLoad(e *Engine, st *State, args []Value, depth int, pos string, k func(*State, Value)) {
	if _, _, t, ok := atomicBoolTerm(e, st, args[0]); ok {
		k(st, sym(Not(Eq(t, IntLit(0)))))
		return
	}
	k(st, sym(e.fresh(st, "atomicbool", SBool)))
}

func atomicBoolStore(e *Engine, st *State, args []Value, depth int, pos string, k func(*State, Value)) {
	if p, sv, _, ok := atomicBoolTerm(e, st, args[0]); ok {
		if b, ok := args[1].(VSym); ok {
			nf := append([]Value{}, sv.F...)
			nf[len(nf)-1] = sym(Ite(b.T, IntLit(1), IntLit(0)))
			e.store(st, p, VStruct{nf})
		}
	}
	k(st, nil)
}

func crcChecksum(e *Engine, st *State, args []Value, depth int, pos string, k func(*State, Value)) {
	if b, ok := args[0].(VSym); ok {
		k(st, sym(App(SInt, "crc32c", b.T)))
		return
	}
	k(st, sym(e.fresh(st, "crc", SInt)))
}

func sqlNamed(e *Engine, st *State, args []Value, depth int, pos string, k func(*State, Value)) {
	k(st, VAbs{Kind: "namedarg", ID: e.nextID(), Data: args})
}

// ---------------------------------------------------------------------------
// container/list as a sequence (A-LIST), used by queue[T]

func listNew(e *Engine, st *State, args []Value, depth int, pos string, k func(*State, Value)) {
	seq := e.fresh(st, "newlist", SEvSeq)
	cell := e.newCell(st, &ListObj{Seq: seq, Len: IntLit(0), NilT: TFalse})
	k(st, VAbs{Kind: "list", ID: cell})
}

func (e *Engine) listObj(st *State, v Value) (*ListObj, int, bool) {
	a, ok := v.(VAbs)
	if !ok || a.Kind != "list" {
		return nil, 0, false
	}
	l, ok := st.heap[a.ID].(*ListObj)
	return l, a.ID, ok
}

func listPushFront(e *Engine, st *State, args []Value, depth int, pos string, k func(*State, Value)) {
	l, cell, ok := e.listObj(st, args[0])
	if !ok {
		k(st, VUnknown{Typ: nil, Note: "list.PushFront"})
		return
	}
	ev := e.feedEvTerm(st, args[1])
	n := &ListObj{Seq: Store(l.Seq, l.Len, ev), Len: Add(l.Len, IntLit(1)), NilT: l.NilT}
	st.heap[cell] = n
	st.addTrace(TraceEv{Kind: "list.pushfront", Pos: pos, Terms: map[string]Term{"ev": ev}})
	k(st, VAbs{Kind: "listelem", ID: e.nextID(), Data: ev})
}

func listLen(e *Engine, st *State, args []Value, depth int, pos string, k func(*State, Value)) {
	l, _, ok := e.listObj(st, args[0])
	if !ok {
		k(st, e.havoc(st, types.Typ[types.Int], "list.Len"))
		return
	}
	k(st, sym(l.Len))
}

func listBack(e *Engine, st *State, args []Value, depth int, pos string, k func(*State, Value)) {
	l, _, ok := e.listObj(st, args[0])
	if !ok {
		k(st, VUnknown{Typ: nil, Note: "list.Back"})
		return
	}
	// Back() of an empty list is nil; otherwise an element whose Value is the oldest queued event
	st.addTrace(TraceEv{Kind: "list.back", Pos: pos})
	ev := Select(l.Seq, IntLit(0), SFeedEv)
	if !Gt(l.Len, IntLit(0)).IsTrue() {
		st2 := st.clone()
		st2.assume(Le(l.Len, IntLit(0)))
		k(st2, VNil{})
		st.assume(Gt(l.Len, IntLit(0)))
	}
	// the queued value: nil *FeedEvent (dump terminator) or a pointer to an event
	elemFor := func(st *State, val Value) Value {
		et := e.listElementType()
		if et == nil {
			return VAbs{Kind: "listelem", ID: e.nextID(), Data: ev}
		}
		stt := et.Underlying().(*types.Struct)
		fs := make([]Value, stt.NumFields())
		for i := range fs {
			if stt.Field(i).Name() == "Value" {
				fs[i] = val
			} else {
				fs[i] = VNil{}
			}
		}
		return VPtr{Cell: e.newCell(st, VStruct{fs})}
	}
	fet := e.feedEventNamed()
	if fet == nil {
		k(st, VAbs{Kind: "listelem", ID: e.nextID(), Data: ev})
		return
	}
	isNilEv := Eq(ev, mkT("FE_NIL", SFeedEv))
	stn := st.clone()
	stn.assume(isNilEv)
	k(stn, elemFor(stn, VIface{Typ: types.NewPointer(fet), V: VNil{}}))
	st.assume(Not(isNilEv))
	k(st, elemFor(st, VIface{Typ: types.NewPointer(fet), V: e.feedEventValue(st, ev)}))
}

func (e *Engine) listElementType() types.Type {
	for _, p := range e.prog.AllPackages() {
		if p.Pkg.Path() == "container/list" {
			if tn := p.Pkg.Scope().Lookup("Element"); tn != nil {
				return tn.Type()
			}
		}
	}
	return nil
}

func (e *Engine) feedEventNamed() types.Type {
	for _, p := range e.prog.AllPackages() {
		if p.Pkg.Path() == "github.com/couchbase/sg-bucket" {
			if tn := p.Pkg.Scope().Lookup("FeedEvent"); tn != nil {
				return tn.Type()
			}
		}
	}
	return nil
}

// feedEventValue builds a *sgbucket.FeedEvent whose fields are the components of a FeedEv term.
func (e *Engine) feedEventValue(st *State, ev Term) Value {
	stt := e.feedEventType()
	fs := make([]Value, stt.NumFields())
	field := map[string]string{"Opcode": "fe.opcode", "Key": "fe.key", "Value": "fe.value", "Cas": "fe.cas", "Expiry": "fe.expiry",
		"DataType": "fe.datatype", "RevNo": "fe.revno", "CollectionID": "fe.collid"}
	for i := range fs {
		f := stt.Field(i)
		if acc, ok := field[f.Name()]; ok {
			fs[i] = sym(App(scalarSort(f.Type()), acc, ev))
		} else {
			fs[i] = e.havoc(st, f.Type(), "fe."+f.Name())
		}
	}
	return VPtr{Cell: e.newCell(st, VStruct{fs})}
}

func listRemove(e *Engine, st *State, args []Value, depth int, pos string, k func(*State, Value)) {
	l, cell, ok := e.listObj(st, args[0])
	if !ok {
		k(st, VUnknown{Typ: nil, Note: "list.Remove"})
		return
	}
	// only removal of the back element is used (queue.pull)
	shifted := e.fresh(st, "listshift", SEvSeq)
	// the remaining elements keep their order (A-LIST); their positions shift down by one: not needed by any clause,
	// so the shifted sequence is left uninterpreted rather than axiomatised with a quantifier
	st.heap[cell] = &ListObj{Seq: shifted, Len: Sub(l.Len, IntLit(1)), NilT: l.NilT}
	st.addTrace(TraceEv{Kind: "list.removeback", Pos: pos})
	// Remove returns the removed element's Value
	if len(args) >= 2 {
		if p, ok := args[1].(VPtr); ok {
			if sv, ok := e.load(st, p).(VStruct); ok {
				if et := e.listElementType(); et != nil {
					stt := et.Underlying().(*types.Struct)
					for i := 0; i < stt.NumFields() && i < len(sv.F); i++ {
						if stt.Field(i).Name() == "Value" {
							k(st, sv.F[i])
							return
						}
					}
				}
			}
		}
	}
	k(st, VUnknown{Typ: nil, Note: "removed"})
}

var SFeedEv = &Sort{"FeedEv"}
