package main

import (
	"fmt"
	"os"
	"go/constant"
	"go/token"
	"go/types"
	"math/big"
	"strings"

	"golang.org/x/tools/go/ssa"
)

type Frame struct {
	fn    *ssa.Function
	regs  map[ssa.Value]Value
	depth int
	id    int
	k     func(st *State, ret Value) // continuation on normal return
}

type budgetExceeded struct{ what string }

const maxDepth = 40

func (e *Engine) pos(p token.Pos) string {
	if !p.IsValid() {
		return ""
	}
	ps := e.prog.Fset.Position(p)
	f := ps.Filename
	if i := strings.LastIndex(f, "/"); i >= 0 {
		f = f[i+1:]
	}
	return fmt.Sprintf("%s:%d", f, ps.Line)
}

// callFunction executes fn with args in state st and calls k for every path that returns normally.
// Paths that panic end through e.panicPath.
func (e *Engine) callFunction(st *State, fn *ssa.Function, args []Value, bind []Value, depth int, k func(*State, Value)) {
	if depth > maxDepth {
		st.incomplete = "call depth exceeded at " + fn.String()
		e.endPath(st)
		return
	}
	if len(fn.Blocks) == 0 {
		// no body: external
		e.externCall(st, fn, args, depth, k)
		return
	}
	e.nextSym++
	fr := &Frame{fn: fn, depth: depth, k: k, id: e.nextSym}
	st.newRegs(fr)
	for i, p := range fn.Params {
		if i < len(args) {
			st.wregs(fr)[p] = args[i]
		}
	}
	for i, fv := range fn.FreeVars {
		if i < len(bind) {
			st.wregs(fr)[fv] = bind[i]
		}
	}
	for len(st.defers) <= depth {
		st.defers = append(st.defers, nil)
	}
	st.defers[depth] = nil
	e.runBlock(st, fr, fn.Blocks[0], nil)
}

func (e *Engine) runBlock(st *State, fr *Frame, b *ssa.BasicBlock, pred *ssa.BasicBlock) {
	// remember that the body of a loop handled by the cut-point rule was entered on this path: a path that then
	// reaches the end of the function left the loop from inside its body (break / return)
	// (A compound loop condition - `for err == nil && i < n` - spreads over several blocks: blocks that only compute a
	// condition and branch continue the header; leaving the loop from one of them is the loop's normal exit.)
	if pred != nil && b != pred {
		hdr := pred
		if st.condChainOf != nil && st.condChainAt == pred {
			hdr = st.condChainOf
		}
		st.condChainOf, st.condChainAt = nil, nil
		if _, active := st.loopMark[fmt.Sprintf("genloop/%d/%d", fr.id, hdr.Index)]; active && isLoopHeader(hdr) && loopBlocks(hdr)[b] {
			if pureConditionBlock(b) {
				st.condChainOf, st.condChainAt = hdr, b
			} else {
				st.bodyEntered = true
			}
		}
	}
	if e.loopsSeen != nil && isLoopHeader(b) {
		e.loopsSeen[fmt.Sprintf("%s/%d", fr.fn.String(), b.Index)] = true
	}
	// loop bound (per frame depth + block): unwinding
	key := fmt.Sprintf("%d/%d", fr.id, b.Index)
	st.visits[key]++
	if st.visits[key] > e.loopBound+1 {
		// unwinding point: only acceptable if the path is infeasible
		if os.Getenv("ROSVC_DEBUGLOOP") != "" {
			tail := ""
			for i := len(st.pc) - 1; i >= 0 && i >= len(st.pc)-4; i-- {
				tail += " | " + truncate(st.pc[i].S, 120)
			}
			fmt.Fprintf(os.Stderr, "DEBUG loop bound at %s block %d (%s) pc tail:%s\n", fr.fn.Name(), b.Index, e.pos(b.Instrs[0].Pos()), tail)
		}
		if e.solver != nil && !e.solver.feasible(e, st) {
			return // infeasible: unwinding assertion holds
		}
		if e.dropAtBound {
			return // bounded check (flag bounded=..., flag unwind=drop): longer runs are outside the stated bound
		}
		if e.autoCutWant != nil && e.contracts != nil && isLoopHeader(b) && e.loopInvariants(fr.fn, headerOrdinal(b)) == nil {
			e.autoCutWant[fmt.Sprintf("%s/%d", fr.fn.String(), b.Index)] = true
		}
		st.incomplete = fmt.Sprintf("loop bound %d exceeded in %s block %d (%s)", e.loopBound, fr.fn.String(), b.Index, e.pos(b.Instrs[0].Pos()))
		e.endPath(st)
		return
	}
	// loops with an invariant in the contract file: cut-point rule
	if e.contracts != nil && pred != nil && b.Dominates(pred) || (e.contracts != nil && isLoopHeader(b)) {
		// phis are assigned first (entry values), then havocked by the rule
		e.assignPhis(st, fr, b, pred)
		if handled, ended := e.genericLoopHeader(st, fr, b); handled {
			if ended {
				return
			}
			k := 0
			for k < len(b.Instrs) {
				if _, ok := b.Instrs[k].(*ssa.Phi); !ok {
					break
				}
				k++
			}
			st.visits[key]--
			e.runFrom(st, fr, b, k)
			return
		}
	}
	// phis first (parallel assignment)
	i := 0
	if pred != nil {
		var vals []Value
		var phis []*ssa.Phi
		for ; i < len(b.Instrs); i++ {
			phi, ok := b.Instrs[i].(*ssa.Phi)
			if !ok {
				break
			}
			idx := -1
			for j, p := range b.Preds {
				if p == pred {
					idx = j
					break
				}
			}
			phis = append(phis, phi)
			vals = append(vals, e.operand(st, fr, phi.Edges[idx]))
		}
		for j, phi := range phis {
			st.wregs(fr)[phi] = vals[j]
		}
	}
	e.runFrom(st, fr, b, i)
}

func isLoopHeader(b *ssa.BasicBlock) bool {
	for _, p := range b.Preds {
		if b.Dominates(p) {
			return true
		}
	}
	return false
}

func (e *Engine) assignPhis(st *State, fr *Frame, b *ssa.BasicBlock, pred *ssa.BasicBlock) {
	if pred == nil {
		return
	}
	var vals []Value
	var phis []*ssa.Phi
	for _, in := range b.Instrs {
		phi, ok := in.(*ssa.Phi)
		if !ok {
			break
		}
		idx := -1
		for j, p := range b.Preds {
			if p == pred {
				idx = j
				break
			}
		}
		phis = append(phis, phi)
		vals = append(vals, e.operand(st, fr, phi.Edges[idx]))
	}
	for j, phi := range phis {
		st.wregs(fr)[phi] = vals[j]
	}
}

func (e *Engine) runFrom(st *State, fr *Frame, b *ssa.BasicBlock, i int) {
	for ; i < len(b.Instrs); i++ {
		instr := b.Instrs[i]
		switch in := instr.(type) {
		case *ssa.If:
			c := e.operand(st, fr, in.Cond)
			cs, ok := c.(VSym)
			if !ok {
				st.incomplete = "non-symbolic branch condition at " + e.pos(in.Pos())
				e.endPath(st)
				return
			}
			if cs.T.IsTrue() {
				e.runBlock(st, fr, b.Succs[0], b)
				return
			}
			if cs.T.IsFalse() {
				e.runBlock(st, fr, b.Succs[1], b)
				return
			}
			switch st.known(cs.T) {
			case 1:
				e.runBlock(st, fr, b.Succs[0], b)
				return
			case -1:
				e.runBlock(st, fr, b.Succs[1], b)
				return
			}
			st2 := st.clone()
			st.assume(cs.T)
			st2.assume(Not(cs.T))
			if !e.pruneForks || e.solver.feasible(e, st) {
				e.runBlock(st, fr, b.Succs[0], b)
			}
			if !e.pruneForks || e.solver.feasible(e, st2) {
				e.runBlock(st2, fr, b.Succs[1], b)
			}
			return
		case *ssa.Jump:
			e.runBlock(st, fr, b.Succs[0], b)
			return
		case *ssa.Return:
			var ret Value
			switch len(in.Results) {
			case 0:
				ret = nil
			case 1:
				ret = e.operand(st, fr, in.Results[0])
			default:
				t := make([]Value, len(in.Results))
				for j, r := range in.Results {
					t[j] = e.operand(st, fr, r)
				}
				ret = VTuple{t}
			}
			fr.k(st, ret)
			return
		case *ssa.Panic:
			v := e.operand(st, fr, in.X)
			e.panicPath(st, fr.depth, "panic: "+showValue(v)+" at "+e.pos(in.Pos()))
			return
		case *ssa.RunDefers:
			ii := i
			e.runDefers(st, fr.depth, func(st *State) { e.runFrom(st, fr, b, ii+1) })
			return
		case *ssa.Call:
			ii := i
			e.doCall(st, fr, &in.Call, in.Pos(), func(st *State, ret Value) {
				st.wregs(fr)[in] = ret
				e.runFrom(st, fr, b, ii+1)
			})
			return
		case *ssa.Defer:
			fnv, args := e.callTarget(st, fr, &in.Call)
			st.defers[fr.depth] = append(st.defers[fr.depth], deferred{fn: fnv, args: args, call: &in.Call, pos: e.pos(in.Pos())})
		case *ssa.Go:
			fnv, args := e.callTarget(st, fr, &in.Call)
			st.addTrace(TraceEv{Kind: "spawn", Text: showValue(fnv), Args: args, Pos: e.pos(in.Pos()), Extra: fnv})
		default:
			if !e.step(st, fr, instr) {
				return
			}
		}
	}
}

// runDefers runs the deferred calls of the frame at depth in LIFO order, then k.
func (e *Engine) runDefers(st *State, depth int, k func(*State)) {
	if depth >= len(st.defers) || len(st.defers[depth]) == 0 {
		k(st)
		return
	}
	ds := st.defers[depth]
	d := ds[len(ds)-1]
	st.defers[depth] = ds[:len(ds)-1 : len(ds)-1]
	e.invoke(st, d.fn, d.args, d.call, depth+1, d.pos, func(st *State, _ Value) {
		e.runDefers(st, depth, k)
	})
}

// panicPath unwinds all frames (running defers, so that deferred unlocks are modelled) and ends the path.
func (e *Engine) panicPath(st *State, depth int, msg string) {
	if !st.panicked {
		st.panicked = true
		st.panicMsg = msg
		st.addTrace(TraceEv{Kind: "panic", Text: msg})
	}
	var unwind func(st *State, d int)
	unwind = func(st *State, d int) {
		if d < 0 {
			e.endPath(st)
			return
		}
		e.runDefers(st, d, func(st *State) { unwind(st, d-1) })
	}
	unwind(st, depth)
}

// endPath is set by the driver: called for paths that end abnormally (panic / incomplete).
var endPathHook func(st *State)

func (e *Engine) endPath(st *State) {
	if endPathHook != nil {
		endPathHook(st)
	}
}

// ---------------------------------------------------------------------------

func (e *Engine) operand(st *State, fr *Frame, v ssa.Value) Value {
	switch x := v.(type) {
	case *ssa.Const:
		return e.constValue(x)
	case *ssa.Function:
		return VFunc{Fn: x}
	case *ssa.Global:
		return VPtr{Cell: e.globalCell(st, x)}
	case *ssa.Builtin:
		return VAbs{Kind: "builtin", Data: x.Name()}
	}
	if r, ok := st.rregs(fr)[v]; ok {
		return r
	}
	return VUnknown{Typ: v.Type(), Note: "undefined register " + v.Name()}
}

func (e *Engine) constValue(c *ssa.Const) Value {
	t := c.Type()
	if c.Value == nil {
		// zero value / nil
		return e.zeroOf(t)
	}
	switch c.Value.Kind() {
	case constant.Bool:
		return sym(BoolLit(constant.BoolVal(c.Value)))
	case constant.String:
		return sym(e.strLit(constant.StringVal(c.Value)))
	case constant.Int:
		bi, _ := new(big.Int).SetString(c.Value.ExactString(), 10)
		if bi == nil {
			bi = big.NewInt(0)
		}
		return sym(BigLit(bi))
	case constant.Float:
		f, _ := constant.Float64Val(c.Value)
		return sym(IntLit(int64(f)))
	}
	return VUnknown{Typ: t, Note: "const"}
}

// globalCell returns the heap cell for a package-level variable. Cells for globals are created lazily in
// each path's heap with a deterministic initial content, so forks agree.
func (e *Engine) globalCell(st *State, g *ssa.Global) int {
	cell, ok := e.globals[g]
	if !ok {
		e.nextCell++
		cell = e.nextCell
		e.globals[g] = cell
	}
	if _, present := st.heap[cell]; !present {
		st.heap[cell] = e.globalInit(st, g)
	}
	return cell
}

func (e *Engine) globalInit(st *State, g *ssa.Global) Value {
	elem := g.Type().(*types.Pointer).Elem()
	name := g.Pkg.Pkg.Path() + "." + g.Name()
	// constants assigned in the package initialiser (e.g. sqlite3.ErrBusy = ErrNo(5))
	if init := g.Pkg.Func("init"); init != nil {
		for _, b := range init.Blocks {
			for _, in := range b.Instrs {
				if s, ok := in.(*ssa.Store); ok && s.Addr == g {
					if c, ok := s.Val.(*ssa.Const); ok {
						return e.constValue(c)
					}
				}
			}
		}
	}
	// error-typed sentinels: unique identity
	if types.Identical(elem, types.Universe.Lookup("error").Type()) {
		return e.sentinelErr(st, name)
	}
	if g.Pkg == e.pkg {
		return VLazy{elem, "g." + g.Name()}
	}
	return VLazy{elem, "g." + sanitize(name)}
}

// sentinelErr returns a unique non-nil error value identified by name.
func (e *Engine) sentinelErr(st *State, name string) Value {
	if v, ok := e.sentinel[name]; ok {
		return v
	}
	e.nextCell++
	v := VIface{Typ: sentinelType, V: VAbs{Kind: "sentinel", ID: e.nextCell, Data: name}}
	e.sentinel[name] = v
	return v
}

var sentinelType = types.NewPointer(types.NewNamed(types.NewTypeName(token.NoPos, nil, "errorString", nil), types.NewStruct(nil, nil), nil))

// ---------------------------------------------------------------------------
// Non-control instructions. Returns false if the path ended.

func (e *Engine) step(st *State, fr *Frame, instr ssa.Instruction) bool {
	switch in := instr.(type) {
	case *ssa.Alloc:
		elem := in.Type().(*types.Pointer).Elem()
		cell := e.newCell(st, e.zeroOf(elem))
		st.wregs(fr)[in] = VPtr{Cell: cell}
	case *ssa.Store:
		addr := e.operand(st, fr, in.Addr)
		val := e.operand(st, fr, in.Val)
		p, ok := addr.(VPtr)
		if !ok {
			if _, isnil := addr.(VNil); isnil {
				e.panicPath(st, fr.depth, "nil pointer store at "+e.pos(in.Pos()))
				return false
			}
			st.notes = append(st.notes, "store through unmodelled pointer at "+e.pos(in.Pos()))
			return true
		}
		e.store(st, p, val)
	case *ssa.UnOp:
		return e.unop(st, fr, in)
	case *ssa.BinOp:
		x := e.operand(st, fr, in.X)
		y := e.operand(st, fr, in.Y)
		st.wregs(fr)[in] = e.binop(st, in.Op, x, y, in.X.Type(), in.Type(), e.pos(in.Pos()))
	case *ssa.FieldAddr:
		x := e.operand(st, fr, in.X)
		switch p := x.(type) {
		case VPtr:
			st.wregs(fr)[in] = VPtr{Cell: p.Cell, Path: fmt.Sprintf("%s.%d", p.Path, in.Field)}
		case VNil:
			e.panicPath(st, fr.depth, "nil dereference (field) at "+e.pos(in.Pos()))
			return false
		default:
			// pointer to unmodelled object: make a detached lazy cell so execution can go on
			ft := in.Type().(*types.Pointer).Elem()
			cell := e.newCell(st, VLazy{ft, fmt.Sprintf("detached.%d", e.nextID())})
			st.wregs(fr)[in] = VPtr{Cell: cell}
			st.notes = append(st.notes, "field of unmodelled pointer at "+e.pos(in.Pos()))
		}
	case *ssa.Field:
		x := e.operand(st, fr, in.X)
		if s, ok := x.(VStruct); ok && in.Field < len(s.F) {
			st.wregs(fr)[in] = s.F[in.Field]
		} else {
			st.wregs(fr)[in] = e.havoc(st, in.Type(), "field")
		}
	case *ssa.IndexAddr:
		x := e.operand(st, fr, in.X)
		idx := e.operand(st, fr, in.Index)
		ci, isConst := constIndex(idx)
		switch p := x.(type) {
		case VPtr:
			if isConst {
				st.wregs(fr)[in] = VPtr{Cell: p.Cell, Path: fmt.Sprintf("%s.%d", p.Path, ci)}
				return true
			}
		case VSlice:
			if isConst {
				if ci < 0 || p.Lo+ci >= p.Hi {
					e.panicPath(st, fr.depth, "index out of range at "+e.pos(in.Pos()))
					return false
				}
				st.wregs(fr)[in] = VPtr{Cell: p.Cell, Path: fmt.Sprintf(".%d", p.Lo+ci)}
				return true
			}
		}
		if xa, ok := x.(VAbs); ok && xa.Kind == "strslice" {
			if is, ok := idx.(VSym); ok {
				ss := xa.Data.(*StrSlice)
				cell := e.newCell(st, sym(ss.at(is.T)))
				st.wregs(fr)[in] = VPtr{Cell: cell}
				return true
			}
		}
		if xs, ok := x.(VSym); ok && xs.T.Sort == SBytes {
			if is, ok := idx.(VSym); ok && is.T.Sort == SInt {
				// element of a []byte: in range or a run-time panic; the byte is a function of the slice and the index
				inRange := And(Ge(is.T, IntLit(0)), Lt(is.T, App(SInt, "b.len", xs.T)))
				if !inRange.IsTrue() {
					st2 := st.clone()
					st2.assume(Not(inRange))
					e.panicPath(st2, fr.depth, "index out of range at "+e.pos(in.Pos()))
					st.assume(inRange)
				}
				bt := App(SInt, "b.at", xs.T, is.T)
				st.fact(And(Ge(bt, IntLit(0)), Le(bt, IntLit(255))))
				cell := e.newCell(st, sym(bt))
				st.wregs(fr)[in] = VPtr{Cell: cell}
				return true
			}
		}
		et := in.Type().(*types.Pointer).Elem()
		cell := e.newCell(st, VLazy{et, fmt.Sprintf("elem.%d", e.nextID())})
		st.wregs(fr)[in] = VPtr{Cell: cell}
		st.notes = append(st.notes, "symbolic IndexAddr at "+e.pos(in.Pos()))
	case *ssa.Index:
		x := e.operand(st, fr, in.X)
		idx := e.operand(st, fr, in.Index)
		if xs, ok := x.(VSym); ok && xs.T.Sort == SStr {
			if is, ok := idx.(VSym); ok {
				st.wregs(fr)[in] = sym(App(SInt, "s.at", xs.T, is.T))
				return true
			}
		}
		if s, ok := x.(VStruct); ok {
			if ci, isConst := constIndex(idx); isConst && ci < len(s.F) {
				st.wregs(fr)[in] = s.F[ci]
				return true
			}
		}
		st.wregs(fr)[in] = e.havoc(st, in.Type(), "index")
	case *ssa.Extract:
		t := e.operand(st, fr, in.Tuple)
		if tv, ok := t.(VTuple); ok && in.Index < len(tv.E) {
			st.wregs(fr)[in] = tv.E[in.Index]
		} else {
			st.wregs(fr)[in] = e.havoc(st, in.Type(), "extract")
		}
	case *ssa.MakeInterface:
		x := e.operand(st, fr, in.X)
		st.wregs(fr)[in] = VIface{Typ: in.X.Type(), V: x}
	case *ssa.ChangeInterface:
		st.wregs(fr)[in] = e.operand(st, fr, in.X)
	case *ssa.ChangeType:
		st.wregs(fr)[in] = e.operand(st, fr, in.X)
	case *ssa.Convert:
		st.wregs(fr)[in] = e.convert(st, e.operand(st, fr, in.X), in.X.Type(), in.Type())
	case *ssa.MakeClosure:
		binds := make([]Value, len(in.Bindings))
		for i, b := range in.Bindings {
			binds[i] = e.operand(st, fr, b)
		}
		st.wregs(fr)[in] = VFunc{Fn: in.Fn.(*ssa.Function), Bind: binds}
	case *ssa.MakeMap:
		mt := in.Type().Underlying().(*types.Map)
		obj := &MapObj{Typ: mt}
		if ks, vs, absent, ok := mapSorts(mt); ok {
			obj.KeySort, obj.ValSort, obj.Absent = ks, vs, absent
			if absent.S == "" {
				zero := e.zeroOf(mt.Elem()).(VSym).T
				obj.Arr = constArr(ks, vs, zero)
				obj.Has = constArr(ks, SBool, TFalse)
			} else {
				obj.Arr = mkT(fmt.Sprintf("((as const (Array %s %s)) %s)", ks.Name, vs.Name, absent.S), canonSort(fmt.Sprintf("(Array %s %s)", ks.Name, vs.Name)))
			}
		} else {
			obj.Struct = true
			obj.Entries = map[string]Value{}
			obj.KeyTerms = map[string]Term{}
		}
		obj.Fresh = true
		st.wregs(fr)[in] = VMap{e.newCell(st, obj)}
	case *ssa.MakeSlice:
		if isBytesType(in.Type()) {
			l := e.operand(st, fr, in.Len)
			b := e.fresh(st, "mkbytes", SBytes)
			st.assume(Not(App(SBool, "b.isnil", b)))
			if ls, ok := l.(VSym); ok {
				st.assume(Eq(App(SInt, "b.len", b), ls.T))
			}
			st.wregs(fr)[in] = sym(b)
		} else {
			// slice of structured elements: empty concrete slice when len is constant 0
			l := e.operand(st, fr, in.Len)
			if n, ok := constIndex(l); ok && n <= 16 {
				et := in.Type().Underlying().(*types.Slice).Elem()
				fs := make([]Value, n)
				for i := range fs {
					fs[i] = e.zeroOf(et)
				}
				cell := e.newCell(st, VStruct{fs})
				st.wregs(fr)[in] = VSlice{Cell: cell, Lo: 0, Hi: n}
			} else {
				st.wregs(fr)[in] = VUnknown{Typ: in.Type(), Note: "makeslice"}
			}
		}
	case *ssa.MakeChan:
		st.wregs(fr)[in] = VAbs{Kind: "chan", ID: e.nextID()}
	case *ssa.Slice:
		return e.sliceOp(st, fr, in)
	case *ssa.Lookup:
		return e.lookup(st, fr, in)
	case *ssa.MapUpdate:
		return e.mapUpdate(st, fr, in)
	case *ssa.TypeAssert:
		return e.typeAssert(st, fr, in)
	case *ssa.Range:
		return e.rangeInit(st, fr, in)
	case *ssa.Next:
		return e.rangeNext(st, fr, in)
	case *ssa.Send:
		st.addTrace(TraceEv{Kind: "send", Pos: e.pos(in.Pos())})
	case *ssa.DebugRef:
	default:
		st.incomplete = fmt.Sprintf("unsupported instruction %T at %s", instr, e.pos(instr.Pos()))
		e.endPath(st)
		return false
	}
	return true
}

func constIndex(v Value) (int, bool) {
	if s, ok := v.(VSym); ok {
		if n, ok := s.T.intConst(); ok && n.IsInt64() {
			return int(n.Int64()), true
		}
	}
	return 0, false
}

// havoc returns an unconstrained value of type t.
func (e *Engine) havoc(st *State, t types.Type, hint string) Value {
	if t == nil {
		return VUnknown{Typ: nil, Note: hint}
	}
	if tt, ok := t.(*types.Tuple); ok {
		vs := make([]Value, tt.Len())
		for i := range vs {
			vs[i] = e.havoc(st, tt.At(i).Type(), hint)
		}
		return VTuple{vs}
	}
	if s := scalarSort(t); s != nil {
		term := e.fresh(st, hint, s)
		if lo, hi, ok := intRange(t); ok {
			st.assume(And(Ge(term, mkT(lo, SInt)), Le(term, mkT(hi, SInt))))
		}
		return sym(term)
	}
	switch u := t.Underlying().(type) {
	case *types.Struct:
		fs := make([]Value, u.NumFields())
		for i := range fs {
			fs[i] = e.havoc(st, u.Field(i).Type(), hint+"."+u.Field(i).Name())
		}
		return VStruct{fs}
	case *types.Pointer:
		cell := e.newCell(st, VLazy{u.Elem(), fmt.Sprintf("%s.%d", hint, e.nextID())})
		return VPtr{Cell: cell}
	case *types.Map:
		return e.symbolicMap(st, u, fmt.Sprintf("%s.%d", hint, e.nextID()))
	case *types.Slice:
		if b, ok := u.Elem().Underlying().(*types.Basic); ok && b.Kind() == types.String {
			// an arbitrary []string: SMT sequence with symbolic length (nil iff flagged)
			name := fmt.Sprintf("%s.strs%d", sanitize(hint), e.nextID())
			arr := st.declare(name+".arr", SStrSeq)
			ln := st.declare(name+".len", SInt)
			nilT := st.declare(name+".isnil", SBool)
			st.assume(Ge(ln, IntLit(0)))
			st.assume(Implies(nilT, Eq(ln, IntLit(0))))
			return VAbs{Kind: "strslice", ID: e.nextID(), Data: &StrSlice{Arr: arr, Len: ln, Nil: nilT}}
		}
	case *types.Interface:
		if u.NumMethods() == 0 {
			// an arbitrary `any`: an opaque value of the JSON sort (nil iff JNULL; type assertions to map[string]any
			// give the same Go map every time, so that identity of nested maps is preserved)
			return VAbs{Kind: "json", ID: e.nextID(), Data: e.fresh(st, hint+".any", SJson)}
		}
	}
	return VUnknown{Typ: t, Note: hint, ID: e.nextID()}
}

func (e *Engine) unop(st *State, fr *Frame, in *ssa.UnOp) bool {
	x := e.operand(st, fr, in.X)
	switch in.Op {
	case token.MUL: // load
		switch p := x.(type) {
		case VPtr:
			st.wregs(fr)[in] = e.load(st, p)
		case VNil:
			e.panicPath(st, fr.depth, "nil pointer dereference at "+e.pos(in.Pos()))
			return false
		default:
			st.wregs(fr)[in] = e.havoc(st, in.Type(), "load")
			st.notes = append(st.notes, "load through unmodelled pointer at "+e.pos(in.Pos()))
		}
	case token.NOT:
		if s, ok := x.(VSym); ok {
			st.wregs(fr)[in] = sym(Not(s.T))
		} else {
			st.wregs(fr)[in] = e.havoc(st, in.Type(), "not")
		}
	case token.SUB:
		if s, ok := x.(VSym); ok {
			st.wregs(fr)[in] = sym(Sub(IntLit(0), s.T))
		} else {
			st.wregs(fr)[in] = e.havoc(st, in.Type(), "neg")
		}
	case token.ARROW:
		st.addTrace(TraceEv{Kind: "recv", Pos: e.pos(in.Pos())})
		st.wregs(fr)[in] = e.havoc(st, in.Type(), "recv")
	default:
		st.wregs(fr)[in] = e.havoc(st, in.Type(), "unop")
	}
	return true
}

func pow2(n int) Term {
	return BigLit(new(big.Int).Lsh(big.NewInt(1), uint(n)))
}

func typeBits(t types.Type) int {
	b, ok := t.Underlying().(*types.Basic)
	if !ok {
		return 64
	}
	switch b.Kind() {
	case types.Int8, types.Uint8:
		return 8
	case types.Int16, types.Uint16:
		return 16
	case types.Int32, types.Uint32:
		return 32
	}
	return 64
}

type nowrapSite struct {
	pos  string
	cond Term // in-range condition
	pc   []Term
	decls []string
}

func (e *Engine) binop(st *State, op token.Token, x, y Value, xt, rt types.Type, pos string) Value {
	xs, xok := x.(VSym)
	ys, yok := y.(VSym)
	if xok && yok {
		a, b := xs.T, ys.T
		switch a.Sort {
		case SInt:
			var r Term
			wraps := false
			switch op {
			case token.ADD:
				r = Add(a, b)
				wraps = true
			case token.SUB:
				r = Sub(a, b)
				wraps = true
			case token.MUL:
				r = Mul(a, b)
				wraps = true
			case token.QUO:
				r = App(SInt, "div", a, b)
			case token.REM:
				r = App(SInt, "mod", a, b)
			case token.AND:
				if m, ok := b.intConst(); ok && m.Sign() > 0 && m.BitLen() <= 32 {
					if _, isc := a.intConst(); !isc {
						// x & mask = sum of the selected bits (x >= 0 is a stated precondition where it matters)
						r = IntLit(0)
						for bit := 0; bit < m.BitLen(); bit++ {
							if m.Bit(bit) == 1 {
								p2 := pow2(bit)
								r = Add(r, Mul(App(SInt, "mod", App(SInt, "div", a, p2), IntLit(2)), p2))
							}
						}
						break
					}
				}
				if m, ok := b.intConst(); ok {
					// x & (2^k-1)  ==  x mod 2^k
					mm := new(big.Int).Add(m, big.NewInt(1))
					if mm.BitLen() > 0 && new(big.Int).And(mm, m).Sign() == 0 {
						r = App(SInt, "mod", a, BigLit(mm))
						break
					}
					if xa, ok := a.intConst(); ok {
						r = BigLit(new(big.Int).And(xa, m))
						break
					}
				}
				r = App(SInt, "bitand", a, b)
			case token.AND_NOT:
				if m, ok := b.intConst(); ok {
					mm := new(big.Int).Add(m, big.NewInt(1))
					if new(big.Int).And(mm, m).Sign() == 0 { // mask of low bits
						r = Sub(a, App(SInt, "mod", a, BigLit(mm)))
						break
					}
				}
				r = App(SInt, "bitandnot", a, b)
			case token.OR:
				if m, ok := b.intConst(); ok && m.Sign() > 0 && new(big.Int).And(m, new(big.Int).Sub(m, big.NewInt(1))).Sign() == 0 {
					if _, isc := a.intConst(); !isc {
						// x | 2^k : add the bit if it is not set
						set := Eq(App(SInt, "mod", App(SInt, "div", a, BigLit(m)), IntLit(2)), IntLit(1))
						r = Ite(set, a, Add(a, BigLit(m)))
						break
					}
				}
				if xa, ok := a.intConst(); ok {
					if yb, ok := b.intConst(); ok {
						r = BigLit(new(big.Int).Or(xa, yb))
						break
					}
				}
				r = App(SInt, "bitor", a, b)
			case token.SHL:
				if n, ok := b.intConst(); ok && n.IsInt64() && n.Int64() < 64 {
					r = Mul(a, pow2(int(n.Int64())))
					wraps = true
					break
				}
				r = App(SInt, "shl", a, b)
			case token.SHR:
				if n, ok := b.intConst(); ok && n.IsInt64() && n.Int64() < 64 {
					r = App(SInt, "div", a, pow2(int(n.Int64())))
					break
				}
				r = App(SInt, "shr", a, b)
			case token.EQL:
				return sym(Eq(a, b))
			case token.NEQ:
				return sym(Not(Eq(a, b)))
			case token.LSS:
				return sym(Lt(a, b))
			case token.LEQ:
				return sym(Le(a, b))
			case token.GTR:
				return sym(Gt(a, b))
			case token.GEQ:
				return sym(Ge(a, b))
			default:
				return e.havoc(st, rt, "binop")
			}
			if wraps {
				if _, isc := r.intConst(); !isc {
					if lo, hi, ok := intRange(rt); ok {
						inRange := And(Ge(r, mkT(lo, SInt)), Le(r, mkT(hi, SInt)))
						if e.wantNowrap {
							e.nowrapSites = append(e.nowrapSites, nowrapSite{pos: pos, cond: inRange,
								pc: st.pc[:len(st.pc):len(st.pc)], decls: st.decls[:len(st.decls):len(st.decls)]})
						}
						// machine semantics: wrap modulo 2^bits for unsigned types
						if isUnsigned(rt) {
							r = Ite(inRange, r, App(SInt, "mod", r, pow2(typeBits(rt))))
						}
					}
				}
			}
			return sym(r)
		case SBool:
			switch op {
			case token.EQL:
				return sym(Eq(a, b))
			case token.NEQ:
				return sym(Not(Eq(a, b)))
			case token.AND, token.LAND:
				return sym(And(a, b))
			case token.OR, token.LOR:
				return sym(Or(a, b))
			}
		case SStr:
			switch op {
			case token.ADD:
				return sym(e.strConcat(a, b))
			case token.EQL, token.NEQ:
				eq := Eq(a, b)
				// comparison with the empty string is a statement about the length
				if la, ok := e.reverseStr(a.S); ok && la == "" && !eq.IsConst() {
					st.fact(Ge(App(SInt, "s.len", b), IntLit(0)))
					eq = Eq(App(SInt, "s.len", b), IntLit(0))
				} else if lb, ok := e.reverseStr(b.S); ok && lb == "" && !eq.IsConst() {
					st.fact(Ge(App(SInt, "s.len", a), IntLit(0)))
					eq = Eq(App(SInt, "s.len", a), IntLit(0))
				}
				if op == token.NEQ {
					eq = Not(eq)
				}
				return sym(eq)
			}
		case SBytes:
			// only comparisons against nil are legal in Go
		}
	}
	// nil comparisons and identity comparisons
	if op == token.EQL || op == token.NEQ {
		eq := e.valueEq(st, x, y)
		if op == token.NEQ {
			eq = Not(eq)
		}
		return sym(eq)
	}
	return e.havoc(st, rt, "binop")
}

func (e *Engine) strConcat(a, b Term) Term {
	// every concatenation is kept as one text with holes for its symbolic parts, so that a + (b + c), (a + b) + c and
	// fmt.Sprintf("%s%s%s", a, b, c) are the same term
	sa, ok := e.reverseStr(a.S)
	if !ok {
		sa = e.hole(a)
	}
	sb, ok := e.reverseStr(b.S)
	if !ok {
		sb = e.hole(b)
	}
	if sa == "" {
		return b
	}
	if sb == "" {
		return a
	}
	return e.strLit(sa + sb)
}

// valueEq decides equality of two executor values as a Bool term.
func (e *Engine) valueEq(st *State, x, y Value) Term {
	// an interface holding a handle/pointer compared with the bare handle/pointer (contracts do this)
	if xi, ok := x.(VIface); ok {
		switch y.(type) {
		case VAbs, VPtr, VMap, VSym:
			return e.valueEq(st, xi.V, y)
		}
	}
	if yi, ok := y.(VIface); ok {
		switch x.(type) {
		case VAbs, VPtr, VMap, VSym:
			return e.valueEq(st, x, yi.V)
		}
	}
	switch a := x.(type) {
	case VNil:
		return e.isNilTerm(st, y)
	case VSym:
		if b, ok := y.(VAbs); ok && b.Kind == "json" {
			return e.valueEq(st, y, x)
		}
		if b, ok := y.(VSym); ok && a.T.Sort == b.T.Sort {
			if a.T.Sort == SStr {
				// comparison with the empty string is a statement about the length
				if la, ok := e.reverseStr(a.T.S); ok && la == "" && a.T.S != b.T.S {
					if _, lit := e.reverseStr(b.T.S); !lit {
						st.fact(Ge(App(SInt, "s.len", b.T), IntLit(0)))
						return Eq(App(SInt, "s.len", b.T), IntLit(0))
					}
				}
				if lb, ok := e.reverseStr(b.T.S); ok && lb == "" && a.T.S != b.T.S {
					if _, lit := e.reverseStr(a.T.S); !lit {
						st.fact(Ge(App(SInt, "s.len", a.T), IntLit(0)))
						return Eq(App(SInt, "s.len", a.T), IntLit(0))
					}
				}
			}
			return Eq(a.T, b.T)
		}
		if _, ok := y.(VNil); ok {
			return e.isNilTerm(st, x)
		}
	case VPtr:
		switch b := y.(type) {
		case VPtr:
			return BoolLit(a == b)
		case VNil:
			return TFalse
		}
	case VIface:
		switch b := y.(type) {
		case VNil:
			return TFalse
		case VIface:
			if !types.Identical(a.Typ, b.Typ) {
				return TFalse
			}
			return e.valueEq(st, a.V, b.V)
		}
	case VAbs:
		switch b := y.(type) {
		case VAbs:
			return BoolLit(a.Kind == b.Kind && a.ID == b.ID)
		case VNil:
			return e.isNilTerm(st, a)
		case VSym:
			// a decoded JSON value (an `any`) compared with a Go string / bool / number constant or variable
			if jt, ok := a.Data.(Term); ok && a.Kind == "json" {
				var enc Term
				switch b.T.Sort {
				case SStr:
					enc = App(SJson, "j.ofstr", b.T)
				case SBool:
					enc = App(SJson, "j.ofbool", b.T)
				case SInt:
					enc = App(SJson, "j.ofint", b.T)
				}
				if enc.S != "" {
					st.fact(Not(Eq(enc, mkT("JNULL", SJson))))
					return Eq(jt, enc)
				}
			}
		}
	case VStruct:
		if b, ok := y.(VStruct); ok && len(a.F) == len(b.F) {
			var cs []Term
			for i := range a.F {
				cs = append(cs, e.valueEq(st, a.F[i], b.F[i]))
			}
			return And(cs...)
		}
	case VMap:
		if _, ok := y.(VNil); ok {
			return e.isNilTerm(st, x)
		}
		if b, ok := y.(VMap); ok {
			return BoolLit(a.Cell == b.Cell)
		}
	case VFunc:
		if _, ok := y.(VNil); ok {
			return TFalse
		}
	case VSlice:
		if _, ok := y.(VNil); ok {
			return TFalse
		}
	case VUnknown:
		if _, ok := y.(VNil); ok {
			return e.isNilTerm(st, x)
		}
	}
	if _, ok := y.(VNil); ok {
		return e.isNilTerm(st, x)
	}
	return e.fresh(st, "eq", SBool)
}

func (e *Engine) isNilTerm(st *State, v Value) Term {
	switch a := v.(type) {
	case VNil:
		return TTrue
	case VSym:
		if a.T.Sort == SBytes {
			return App(SBool, "b.isnil", a.T)
		}
		if a.T.Sort == SJson {
			return Eq(a.T, mkT("JNULL", SJson))
		}
		return TFalse
	case VAbs:
		if a.Kind == "json" {
			if jt, ok := a.Data.(Term); ok {
				return Eq(jt, mkT("JNULL", SJson))
			}
		}
		if a.Kind == "strslice" {
			if ss, ok := a.Data.(*StrSlice); ok && ss.Nil.S != "" {
				return ss.Nil
			}
		}
		if to, ok := a.Data.(*TimerObj); ok {
			return to.NilT
		}
		if co, ok := a.Data.(*ChanObj); ok {
			return co.NilT
		}
		if a.Kind == "list" {
			if l, ok := st.heap[a.ID].(*ListObj); ok {
				return l.NilT
			}
		}
		return TFalse
	case VPtr, VIface, VFunc, VSlice:
		return TFalse
	case VMap:
		if m, ok := st.heap[a.Cell].(*MapObj); ok {
			if m.Fresh {
				return TFalse
			}
			if m.NilT.S != "" {
				return m.NilT
			}
			return TFalse
		}
	case VUnknown:
		if a.ID != 0 {
			return st.declare(fmt.Sprintf("unk.%d.isnil", a.ID), SBool)
		}
		return e.fresh(st, "isnil", SBool)
	}
	return TFalse
}

func (e *Engine) convert(st *State, x Value, from, to types.Type) Value {
	xs, ok := x.(VSym)
	if !ok {
		return x
	}
	fs, ts := scalarSort(from), scalarSort(to)
	switch {
	case fs == SInt && ts == SInt:
		flo, fhi, ok1 := intRange(from)
		tlo, thi, ok2 := intRange(to)
		if !ok1 || !ok2 {
			return x
		}
		if n, isc := xs.T.intConst(); isc {
			l, _ := mkT(tlo, SInt).intConst()
			h, _ := mkT(thi, SInt).intConst()
			if n.Cmp(l) >= 0 && n.Cmp(h) <= 0 {
				return x
			}
		}
		_ = flo
		_ = fhi
		fl, _ := mkT(flo, SInt).intConst()
		fh, _ := mkT(fhi, SInt).intConst()
		tl, _ := mkT(tlo, SInt).intConst()
		th, _ := mkT(thi, SInt).intConst()
		if fl.Cmp(tl) >= 0 && fh.Cmp(th) <= 0 {
			return x // widening
		}
		bits := typeBits(to)
		in := And(Ge(xs.T, mkT(tlo, SInt)), Le(xs.T, mkT(thi, SInt)))
		if isUnsigned(to) {
			return sym(Ite(in, xs.T, App(SInt, "mod", xs.T, pow2(bits))))
		}
		// signed narrowing: wrap
		w := e.fresh(st, "conv", SInt)
		st.assume(And(Ge(w, mkT(tlo, SInt)), Le(w, mkT(thi, SInt))))
		st.assume(Implies(in, Eq(w, xs.T)))
		return sym(w)
	case fs == SBytes && ts == SStr:
		return sym(App(SStr, "s.ofbytes", xs.T))
	case fs == SStr && ts == SBytes:
		r := App(SBytes, "b.ofstr", xs.T)
		st.fact(Not(Eq(r, nullB)))
		return sym(r)
	case fs == SInt && ts == SStr:
		return sym(App(SStr, "s.ofrune", xs.T))
	}
	return x
}

func (e *Engine) sliceOp(st *State, fr *Frame, in *ssa.Slice) bool {
	x := e.operand(st, fr, in.X)
	lo, hi := -1, -1
	loConst, hiConst := true, true
	if in.Low != nil {
		if n, ok := constIndex(e.operand(st, fr, in.Low)); ok {
			lo = n
		} else {
			loConst = false
		}
	}
	if in.High != nil {
		if n, ok := constIndex(e.operand(st, fr, in.High)); ok {
			hi = n
		} else {
			hiConst = false
		}
	}
	if xa, ok := x.(VAbs); ok && xa.Kind == "strslice" {
		ss := xa.Data.(*StrSlice)
		loT := IntLit(0)
		if in.Low != nil {
			if lv, ok := e.operand(st, fr, in.Low).(VSym); ok {
				loT = lv.T
			}
		}
		hiT := ss.Len
		if in.High != nil {
			if hv, ok := e.operand(st, fr, in.High).(VSym); ok {
				hiT = hv.T
			}
		}
		off := loT
		if ss.Off.S != "" {
			off = Add(ss.Off, loT)
		}
		st.wregs(fr)[in] = VAbs{Kind: "strslice", ID: e.nextID(), Data: &StrSlice{Arr: ss.Arr, Len: Sub(hiT, loT), Nil: ss.Nil, Off: off}}
		return true
	}
	switch p := x.(type) {
	case VPtr: // pointer to array
		arr, ok := e.load(st, p).(VStruct)
		if ok && p.Path == "" && loConst && hiConst {
			if lo < 0 {
				lo = 0
			}
			if hi < 0 {
				hi = len(arr.F)
			}
			st.wregs(fr)[in] = VSlice{Cell: p.Cell, Lo: lo, Hi: hi}
			return true
		}
	case VSlice:
		if loConst && hiConst {
			nlo, nhi := p.Lo, p.Hi
			if lo >= 0 {
				nlo = p.Lo + lo
			}
			if hi >= 0 {
				nhi = p.Lo + hi
			}
			if nlo > nhi || nhi > p.Hi+64 {
				e.panicPath(st, fr.depth, "slice bounds out of range at "+e.pos(in.Pos()))
				return false
			}
			st.wregs(fr)[in] = VSlice{Cell: p.Cell, Lo: nlo, Hi: nhi}
			return true
		}
	case VNil:
		st.wregs(fr)[in] = VNil{}
		return true
	case VSym:
		if p.T.Sort == SBytes || p.T.Sort == SStr {
			var lt, ht Term = IntLit(0), Term{}
			if in.Low != nil {
				if s, ok := e.operand(st, fr, in.Low).(VSym); ok {
					lt = s.T
				}
			}
			lenf := "b.len"
			subf := "b.sub"
			if p.T.Sort == SStr {
				lenf, subf = "s.len", "s.sub"
			}
			if in.High != nil {
				if s, ok := e.operand(st, fr, in.High).(VSym); ok {
					ht = s.T
				}
			} else {
				ht = App(SInt, lenf, p.T)
			}
			st.wregs(fr)[in] = sym(App(p.T.Sort, subf, p.T, lt, ht))
			return true
		}
	}
	st.wregs(fr)[in] = e.havoc(st, in.Type(), "slice")
	st.notes = append(st.notes, "unmodelled slice op at "+e.pos(in.Pos()))
	return true
}

// pureConditionBlock: the block only computes values without effects and ends in a conditional branch.
func pureConditionBlock(b *ssa.BasicBlock) bool {
	if len(b.Instrs) == 0 {
		return false
	}
	if _, ok := b.Instrs[len(b.Instrs)-1].(*ssa.If); !ok {
		return false
	}
	for _, in := range b.Instrs[:len(b.Instrs)-1] {
		switch x := in.(type) {
		case *ssa.BinOp, *ssa.UnOp, *ssa.FieldAddr, *ssa.IndexAddr, *ssa.Index, *ssa.Field, *ssa.Phi, *ssa.Convert,
			*ssa.ChangeType, *ssa.Extract, *ssa.Slice, *ssa.DebugRef:
		case *ssa.Call:
			bi, ok := x.Call.Value.(*ssa.Builtin)
			if !ok || (bi.Name() != "len" && bi.Name() != "cap") {
				return false
			}
		default:
			return false
		}
	}
	return true
}
