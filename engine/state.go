package main

import (
	"sync"
	"fmt"
	"time"
	"go/types"
	"strconv"
	"strings"

	"golang.org/x/tools/go/ssa"
)

type ChanObj struct {
	Name string
	NilT Term
}

// VLazy is the content of a heap cell that holds a not-yet-materialised symbolic input object.
type VLazy struct {
	Typ  types.Type
	Name string
}

// TraceEv is a ghost event recorded along a path.
type TraceEv struct {
	Kind  string // sql, begin, commit, rollback, post, hlcnow, lock, unlock, spawn, call, timer, close, panic
	Text  string
	Args  []Value
	Terms map[string]Term
	Locks []string
	InTxn bool
	Pos   string
	Extra interface{}
	Typ   types.Type // result type (callbacks)
}

type Txn struct {
	Snap Ghost
	ID   int
}

// Ghost is the persistent (SQLite) state the contracts talk about.
type Ghost struct {
	Docs          Term            // (Array DocId Row)
	BucketLastCas Term            // Int
	CollLastCas   Term            // (Array Int Int)
	Vers          map[string]Term // version term per other table (changes whenever the table is written)
}

func (g Ghost) clone() Ghost {
	c := g
	c.Vers = make(map[string]Term, len(g.Vers))
	for k, v := range g.Vers {
		c.Vers[k] = v
	}
	return c
}

type deferred struct {
	fn   Value
	args []Value
	call *ssa.CallCommon
	pos  string
}

type State struct {
	heap    map[int]Value
	pc      []Term
	decls   []string        // declarations, in order
	declSet map[string]bool // names declared
	g       Ghost
	txn     *Txn
	sink    *State // when set, declarations and axiom instances made while evaluating in this (snapshot) state go there
	locks   []string
	trace   []TraceEv
	defers  [][]deferred // per frame depth
	visits  map[string]int
	panicked   bool
	panicMsg   string
	incomplete string // non-empty: path left the modelled subset (reason)
	afterCommit bool  // a Commit succeeded earlier on this path
	clockN  int
	notes   []string
	deadlock   string
	lastNow    Term
	nows       []Term
	clockDraws []Term
	casDraws   []Term
	preStmt    *Ghost
	jsonMaps   map[string]int
	regs       map[int]map[ssa.Value]Value
	regsShared map[int]bool
	bulk       []func(st *State, idx Term) Term // pointwise table definitions, instantiated per obligation
	inst       map[string][]func(st *State, t Term) Term // universally quantified facts, instantiated per obligation on terms of a sort
	bufResults  []bufResult
	cursor      map[int]Term // current row (Skolem DocId) of each open cursor
	lastCursor  Term
	lastCursorDocs Term
	entry       *State // state at the entry of the function under contract (for old() in loop invariants)
	bodyEntered bool
	condChainOf, condChainAt *ssa.BasicBlock // loop header whose (compound) condition the path is still evaluating, and the block it is in
	loopHead    map[string]*State
	loopEntry   map[string]*State
	loopMark    map[string]int
	loopVisited map[string]Term
	loopKey     map[string]Term
}

// addInst registers a universally quantified fact over `sort`; it is instantiated on the terms of an obligation.
func (st *State) addInst(sort *Sort, f func(st *State, t Term) Term) {
	n := make(map[string][]func(st *State, t Term) Term, len(st.inst)+1)
	for k, v := range st.inst {
		n[k] = v
	}
	n[sort.Name] = append(n[sort.Name][:len(n[sort.Name]):len(n[sort.Name])], f)
	st.inst = n
}

// SSA registers are path state (a fork inside a loop must not see the other path's later iterations): they live in
// the State, per frame, copy-on-write.
func (st *State) newRegs(fr *Frame) {
	if st.regs == nil {
		st.regs = map[int]map[ssa.Value]Value{}
		st.regsShared = map[int]bool{}
	}
	st.regs[fr.id] = make(map[ssa.Value]Value, 32)
	delete(st.regsShared, fr.id)
}

func (st *State) rregs(fr *Frame) map[ssa.Value]Value {
	if fr.regs != nil {
		return fr.regs // scratch frame outside any path
	}
	if m, ok := st.regs[fr.id]; ok {
		return m
	}
	st.newRegs(fr)
	return st.regs[fr.id]
}

func (st *State) wregs(fr *Frame) map[ssa.Value]Value {
	if fr.regs != nil {
		return fr.regs
	}
	m, ok := st.regs[fr.id]
	if !ok {
		st.newRegs(fr)
		return st.regs[fr.id]
	}
	if st.regsShared[fr.id] {
		c := make(map[ssa.Value]Value, len(m)+8)
		for k, v := range m {
			c[k] = v
		}
		st.regs[fr.id] = c
		delete(st.regsShared, fr.id)
		return c
	}
	return m
}

func (st *State) clone() *State {
	c := *st
	if st.regs != nil {
		c.regs = make(map[int]map[ssa.Value]Value, len(st.regs))
		c.regsShared = make(map[int]bool, len(st.regs))
		if st.regsShared == nil {
			st.regsShared = map[int]bool{}
		}
		for k, v := range st.regs {
			c.regs[k] = v
			c.regsShared[k] = true
			st.regsShared[k] = true
		}
	}
	c.heap = make(map[int]Value, len(st.heap))
	for k, v := range st.heap {
		c.heap[k] = v
	}
	c.pc = st.pc[:len(st.pc):len(st.pc)]
	c.decls = st.decls[:len(st.decls):len(st.decls)]
	c.declSet = make(map[string]bool, len(st.declSet))
	for k := range st.declSet {
		c.declSet[k] = true
	}
	c.g = st.g.clone()
	if st.txn != nil {
		t := *st.txn
		t.Snap = st.txn.Snap.clone()
		c.txn = &t
	}
	c.locks = st.locks[:len(st.locks):len(st.locks)]
	c.trace = st.trace[:len(st.trace):len(st.trace)]
	c.defers = make([][]deferred, len(st.defers))
	for i, d := range st.defers {
		c.defers[i] = d[:len(d):len(d)]
	}
	c.visits = make(map[string]int, len(st.visits))
	for k, v := range st.visits {
		c.visits[k] = v
	}
	c.notes = st.notes[:len(st.notes):len(st.notes)]
	c.bulk = st.bulk[:len(st.bulk):len(st.bulk)]
	c.nows = st.nows[:len(st.nows):len(st.nows)]
	c.clockDraws = st.clockDraws[:len(st.clockDraws):len(st.clockDraws)]
	c.casDraws = st.casDraws[:len(st.casDraws):len(st.casDraws)]
	if st.jsonMaps != nil {
		c.jsonMaps = make(map[string]int, len(st.jsonMaps))
		for k, v := range st.jsonMaps {
			c.jsonMaps[k] = v
		}
	}
	return &c
}

func (st *State) assume(t Term) {
	if t.IsTrue() {
		return
	}
	if t.Op == "and" && len(t.Args) > 0 {
		// conjuncts are recorded separately so that branch conditions can be decided syntactically
		for _, a := range t.Args {
			st.assume(a)
		}
		return
	}
	st.declSet["pc:"+t.S] = true
	st.pc = append(st.pc, t)
}

// known reports whether t (or its negation) is literally part of the path condition: 1 = t holds, -1 = not t holds.
func (st *State) known(t Term) int {
	if st.declSet["pc:"+t.S] {
		return 1
	}
	if st.declSet["pc:"+Not(t).S] {
		return -1
	}
	return 0
}

// fact adds an instantiated axiom about a term just created (deduplicated).
func (st *State) fact(t Term) {
	if st.sink != nil {
		st.sink.fact(t)
		return
	}
	if t.IsTrue() {
		return
	}
	k := "fact:" + t.S
	if st.declSet[k] {
		return
	}
	st.declSet[k] = true
	st.pc = append(st.pc, t)
}

// inputDecls: declarations of the deterministic input symbols ("in.<access path>") made while the current function is
// verified. They name lazily materialised inputs; a state that shares an already materialised cell with another
// state never declares the symbol itself, so every script of the function gets all of them (unused ones are harmless).
var inputDecls sync.Map

func (st *State) declare(name string, sort *Sort) Term {
	if strings.HasPrefix(name, "in.") || strings.HasPrefix(name, "maphas") {
		inputDecls.Store(smtDecl(name, sort), true)
	}
	if st.sink != nil {
		return st.sink.declare(name, sort)
	}
	if !st.declSet[name] {
		st.declSet[name] = true
		st.decls = append(st.decls, smtDecl(name, sort))
	}
	return mkT(name, sort)
}

func (st *State) holds(lock string) bool {
	for _, l := range st.locks {
		if l == lock {
			return true
		}
	}
	return false
}

func (st *State) addTrace(ev TraceEv) {
	ev.Locks = append([]string(nil), st.locks...)
	ev.InTxn = st.txn != nil
	st.trace = append(st.trace, ev)
}

// ---------------------------------------------------------------------------
// Engine-wide fresh names

type Engine struct {
	resultNames map[string][]string // result names of the functions under contract on the verified tree (fingerprints.json)
	noDBInv     bool              // flag nodbinv: the database invariant is not assumed while verifying this function
	loopsSeen   map[string]bool   // loop headers met while executing the function under contract (incl. inlined callees)
	schemaText  string            // schema.sql of the tree under check (schema obligations)
	// loops without an invariant in the contract file (typically introduced or moved by a refactoring):
	autoLoop    map[string][]int  // map-range loop -> indices of the candidate invariants still in use
	autoCut     map[string]bool   // other loops that ran past the unwinding bound: cut with invariant `true`
	autoOff     map[string]bool   // non-nil candidates (genericLoopHeader) found not inductive
	autoCutWant map[string]bool
	dropAtBound bool              // bounded function: paths that exceed the unwinding bound are dropped (stated bound)
	unrollAll   bool              // bounded variant: loops are unrolled instead of cut at their invariants
	entryShapes map[string]string // input-map name -> shape of its entries in the current variant (bounded shapes)
	prog     *ssa.Program
	pkg      *ssa.Package
	nextCell int
	nextSym  int
	strLits  map[string]string // Go string literal -> SMT constant name
	strOrder []string
	globals  map[*ssa.Global]int // global -> cell
	sentinel map[string]Value
	paths    int
	maxPaths int
	log      func(format string, args ...interface{})
	unmodelled map[string]int
	contracts  *ContractSet
	curFn      string
	loopBound  int
	solver     *Solver
	pruneForks bool
	forkChecks int
	nowrapSites []nowrapSite
	wantNowrap bool
	lazyCells  map[string]int
	reachCount map[string]int
	byteLits   map[int64]bool
	callbacksWriteDB bool
	fnCache    map[string]*ssa.Function
	allFns     map[*ssa.Function]bool
	lastSideSrc *State
	lastSidePC, lastSideTrace int
	lastSideClone *State
	known      *KnownFile
	prop       string
	cellNames  map[int]string
	ufStrs     map[string]string
	ufPreds    map[string]bool
	holes      []Term
	sqlTexts   map[string]bool
	dbErrors   bool
	inMemoryPossible bool
	needXattr, needFeedEv, needCollid, needLenHas bool
	inlinePost bool
	docSchema  []ColDef
	sqliteErrT types.Type
	sideObls   []sideObl
	workers    int
	sessionTimeout, goalTimeout time.Duration
}

func (e *Engine) newCell(st *State, v Value) int {
	e.nextCell++
	st.heap[e.nextCell] = v
	return e.nextCell
}

func (e *Engine) fresh(st *State, hint string, sort *Sort) Term {
	e.nextSym++
	name := fmt.Sprintf("%s!%d", sanitize(hint), e.nextSym)
	return st.declare(name, sort)
}

func sanitize(s string) string {
	var sb strings.Builder
	for _, c := range s {
		switch {
		case c >= 'a' && c <= 'z', c >= 'A' && c <= 'Z', c >= '0' && c <= '9', c == '_', c == '.':
			sb.WriteRune(c)
		default:
			sb.WriteByte('_')
		}
	}
	if sb.Len() == 0 {
		return "v"
	}
	return sb.String()
}

// strLit returns the SMT constant for a Go string literal (distinct literals are distinct constants).
func (e *Engine) strLit(s string) Term {
	if n, ok := e.strLits[s]; ok {
		return mkT(n, SStr)
	}
	n := fmt.Sprintf("str!%d", len(e.strLits))
	e.strLits[s] = n
	e.strOrder = append(e.strOrder, s)
	return mkT(n, SStr)
}

// strLitDecls declares all string literals met so far with their known facts.
func (e *Engine) strLitDecls() string {
	var sb strings.Builder
	var names []string
	for _, s := range e.strOrder {
		n := e.strLits[s]
		fmt.Fprintf(&sb, "(declare-const %s Str) ; %s\n", n, strconv.Quote(s))
		if strings.Contains(s, "\x01") {
			continue // text with symbolic holes: nothing is known about its length or distinctness
		}
		names = append(names, n)
		fmt.Fprintf(&sb, "(assert (= (s.len %s) %d))\n", n, len(s))
		if len(s) > 0 {
			fmt.Fprintf(&sb, "(assert (= (s.at %s 0) %d))\n", n, s[0])
		}
		fmt.Fprintf(&sb, "(assert (= (s.badxattrkey %s) %v))\n", n, strings.ContainsAny(s, "$.[]"))
	}
	if len(names) > 1 {
		fmt.Fprintf(&sb, "(assert (distinct %s))\n", strings.Join(names, " "))
	}
	for c := range e.byteLits {
		fmt.Fprintf(&sb, "(declare-const byte!%d Bytes)\n", c)
	}
	return sb.String()
}

func (e *Engine) reverseStr(name string) (string, bool) {
	for s, n := range e.strLits {
		if n == name {
			return s, true
		}
	}
	return "", false
}

// ---------------------------------------------------------------------------
// Symbolic inputs by type

// symbolicOf builds a symbolic value of Go type t, named by path `name` (deterministic naming).
func (e *Engine) symbolicOf(st *State, t types.Type, name string, depth int) Value {
	if s := scalarSort(t); s != nil {
		term := st.declare("in."+sanitize(name), s)
		if lo, hi, ok := intRange(t); ok {
			st.assume(And(Ge(term, mkT(lo, SInt)), Le(term, mkT(hi, SInt))))
		}
		return sym(term)
	}
	switch u := t.Underlying().(type) {
	case *types.Pointer:
		if v, ok := e.abstractHandle(st, t, name); ok {
			return v
		}
		// deterministic cell per input path: the same input pointer is the same cell in every state
		cell, ok := e.lazyCells[name]
		if !ok {
			e.nextCell++
			cell = e.nextCell
			e.lazyCells[name] = cell
		}
		if _, present := st.heap[cell]; !present {
			st.heap[cell] = VLazy{u.Elem(), name}
		}
		if _, named := e.cellNames[cell]; !named {
			e.cellNames[cell] = name
		}
		return VPtr{Cell: cell}
	case *types.Struct:
		if v, ok := e.abstractHandle(st, t, name); ok {
			return v
		}
		fs := make([]Value, u.NumFields())
		for i := 0; i < u.NumFields(); i++ {
			fs[i] = e.symbolicOf(st, u.Field(i).Type(), name+"."+u.Field(i).Name(), depth+1)
		}
		return VStruct{fs}
	case *types.Array:
		n := int(u.Len())
		if n > 16 {
			return VUnknown{Typ: t, Note: name}
		}
		fs := make([]Value, n)
		for i := range fs {
			fs[i] = e.symbolicOf(st, u.Elem(), fmt.Sprintf("%s.%d", name, i), depth+1)
		}
		return VStruct{fs}
	case *types.Map:
		return e.symbolicMap(st, u, name)
	case *types.Interface:
		if u.NumMethods() == 0 {
			// an arbitrary `any` input: opaque value of the JSON sort (see havoc)
			return VAbs{Kind: "json", ID: e.namedID("json:" + name), Data: st.declare("in."+sanitize(name)+".any", SJson)}
		}
		return VUnknown{Typ: t, Note: name, ID: e.namedID("unk:" + name)}
	case *types.Signature:
		return VUnknown{Typ: t, Note: name, ID: e.namedID("unk:" + name)}
	case *types.Slice:
		if b, ok := u.Elem().Underlying().(*types.Basic); ok && b.Kind() == types.String {
			n := "in." + sanitize(name)
			arr := st.declare(n+".arr", SStrSeq)
			ln := st.declare(n+".len", SInt)
			nilT := st.declare(n+".isnil", SBool)
			st.assume(Ge(ln, IntLit(0)))
			st.assume(Implies(nilT, Eq(ln, IntLit(0))))
			return VAbs{Kind: "strslice", ID: e.namedID("strs:" + name), Data: &StrSlice{Arr: arr, Len: ln, Nil: nilT}}
		}
		return VUnknown{Typ: t, Note: name, ID: e.namedID("unk:" + name)}
	case *types.Chan:
		// a channel input may be nil: symbolic flag, deterministic identity per access path
		id, ok := e.lazyCells["chan:"+name]
		if !ok {
			e.nextCell++
			id = e.nextCell
			e.lazyCells["chan:"+name] = id
		}
		return VAbs{Kind: "chan", ID: id, Data: &ChanObj{Name: name, NilT: st.declare("in."+sanitize(name)+".isnil", SBool)}}
	}
	return VUnknown{Typ: t, Note: name}
}

func (e *Engine) nextID() int { e.nextSym++; return e.nextSym }

// mapSorts decides how a Go map type is modelled: as an SMT array when key and value are scalar.
func mapSorts(m *types.Map) (ks, vs *Sort, absent Term, ok bool) {
	ks = scalarSort(m.Key())
	if ks == nil {
		return nil, nil, Term{}, false
	}
	vs = scalarSort(m.Elem())
	if vs == SBytes {
		return ks, vs, mkT("NOX", SBytes), true
	}
	if _, isIface := m.Elem().Underlying().(*types.Interface); isIface {
		return ks, SJson, mkT("JABSENT", SJson), true
	}
	if vs == SInt || vs == SBool || vs == SStr {
		// presence is tracked by a separate array (MapObj.Has); Absent is unused
		return ks, vs, Term{}, true
	}
	return nil, nil, Term{}, false
}

func (e *Engine) symbolicMap(st *State, m *types.Map, name string) Value {
	obj := &MapObj{Typ: m}
	if ks, vs, absent, ok := mapSorts(m); ok {
		obj.KeySort, obj.ValSort, obj.Absent = ks, vs, absent
		obj.Arr = st.declare("in."+sanitize(name), canonSort(fmt.Sprintf("(Array %s %s)", ks.Name, vs.Name)))
		if absent.S == "" {
			obj.Has = st.declare("in."+sanitize(name)+".has", canonSort(fmt.Sprintf("(Array %s Bool)", ks.Name)))
		}
	} else {
		obj.Struct = true
		obj.Entries = map[string]Value{}
		obj.KeyTerms = map[string]Term{}
		// a structured symbolic map: content unknown; lookups of unknown keys produce lazies
	}
	obj.Name = name
	cell := e.namedCell(st, "map:"+name, obj)
	return VMap{cell}
}

// materialise turns a lazy cell into a struct/scalar value.
func (e *Engine) materialise(st *State, cell int) Value {
	v := st.heap[cell]
	lz, ok := v.(VLazy)
	if !ok {
		return v
	}
	nv := e.symbolicOf(st, lz.Typ, lz.Name, 0)
	st.heap[cell] = nv
	return nv
}

// zeroOf returns the zero value of type t.
func (e *Engine) zeroOf(t types.Type) Value {
	if s := scalarSort(t); s != nil {
		switch s {
		case SInt:
			return sym(IntLit(0))
		case SBool:
			return sym(TFalse)
		case SStr:
			return sym(e.strLit(""))
		case SBytes:
			return sym(mkT("NULLB", SBytes))
		}
	}
	switch u := t.Underlying().(type) {
	case *types.Struct:
		fs := make([]Value, u.NumFields())
		for i := range fs {
			fs[i] = e.zeroOf(u.Field(i).Type())
		}
		return VStruct{fs}
	case *types.Array:
		n := int(u.Len())
		if n > 64 {
			return VUnknown{Typ: t, Note: "bigarray"}
		}
		fs := make([]Value, n)
		for i := range fs {
			fs[i] = e.zeroOf(u.Elem())
		}
		return VStruct{fs}
	}
	return VNil{}
}

// ---------------------------------------------------------------------------
// Heap access through pointers

func parsePath(p string) []int {
	if p == "" {
		return nil
	}
	parts := strings.Split(p[1:], ".")
	out := make([]int, len(parts))
	for i, s := range parts {
		out[i], _ = strconv.Atoi(s)
	}
	return out
}

func (e *Engine) load(st *State, p VPtr) Value {
	v := e.materialise(st, p.Cell)
	for _, i := range parsePath(p.Path) {
		s, ok := v.(VStruct)
		if !ok || i >= len(s.F) {
			return VUnknown{Typ: nil, Note: "badpath"}
		}
		v = s.F[i]
	}
	return v
}

func setPath(v Value, path []int, nv Value) Value {
	if len(path) == 0 {
		return nv
	}
	s, ok := v.(VStruct)
	if !ok || path[0] >= len(s.F) {
		return v
	}
	fs := make([]Value, len(s.F))
	copy(fs, s.F)
	fs[path[0]] = setPath(fs[path[0]], path[1:], nv)
	return VStruct{fs}
}

func (e *Engine) store(st *State, p VPtr, nv Value) {
	v := e.materialise(st, p.Cell)
	st.heap[p.Cell] = setPath(v, parsePath(p.Path), nv)
}
