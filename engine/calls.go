package main

import (
	"fmt"
	"go/token"
	"go/types"
	"strings"

	"golang.org/x/tools/go/ssa"
)

// callTarget evaluates the callee and arguments of a call (for static, closure and invoke mode).
func (e *Engine) callTarget(st *State, fr *Frame, c *ssa.CallCommon) (Value, []Value) {
	args := make([]Value, 0, len(c.Args)+1)
	if c.IsInvoke() {
		recv := e.operand(st, fr, c.Value)
		args = append(args, recv)
		for _, a := range c.Args {
			args = append(args, e.operand(st, fr, a))
		}
		return VAbs{Kind: "invoke", Data: c.Method}, args
	}
	fnv := e.operand(st, fr, c.Value)
	for _, a := range c.Args {
		args = append(args, e.operand(st, fr, a))
	}
	return fnv, args
}

func (e *Engine) doCall(st *State, fr *Frame, c *ssa.CallCommon, p token.Pos, k func(*State, Value)) {
	fnv, args := e.callTarget(st, fr, c)
	e.invoke(st, fnv, args, c, fr.depth+1, e.pos(p), k)
}

// invoke calls a function value.
func (e *Engine) invoke(st *State, fnv Value, args []Value, c *ssa.CallCommon, depth int, pos string, k func(*State, Value)) {
	switch f := fnv.(type) {
	case VFunc:
		// a method value (`g := x.M; g(a)`): go/ssa wraps it in a synthetic closure "M$bound" that captures the receiver;
		// calling it is calling M on that receiver - through M's contract, model or body like any direct call
		if strings.HasSuffix(f.Fn.Name(), "$bound") && len(f.Bind) == 1 {
			if m, ok := f.Fn.Object().(*types.Func); ok {
				recv := f.Bind[0]
				if target := e.prog.FuncValue(m); target != nil {
					e.callNamed(st, target, append([]Value{recv}, args...), nil, depth, pos, k)
					return
				}
				// interface method value: dispatch like an invoke
				e.invoke(st, VAbs{Kind: "invoke", Data: m}, append([]Value{recv}, args...), c, depth, pos, k)
				return
			}
		}
		e.callNamed(st, f.Fn, args, f.Bind, depth, pos, k)
		return
	case VAbs:
		switch f.Kind {
		case "builtin":
			e.builtin(st, f.Data.(string), args, c, depth, pos, k)
			return
		case "invoke":
			m := f.Data.(*types.Func)
			recv := args[0]
			switch r := recv.(type) {
			case VIface:
				if fn := e.lookupMethod(r.Typ, m); fn != nil {
					nargs := append([]Value{r.V}, args[1:]...)
					e.callNamed(st, fn, nargs, nil, depth, pos, k)
					return
				}
				// abstract object behind an interface: model by interface method name
				if e.abstractInvoke(st, r, m, args[1:], c, depth, pos, k) {
					return
				}
			case VNil:
				e.panicPath(st, depth-1, "invoke on nil interface at "+pos)
				return
			case VAbs:
				if e.abstractInvoke(st, VIface{V: r}, m, args[1:], c, depth, pos, k) {
					return
				}
			}
			name := m.FullName()
			if mf, ok := ifaceModels[name]; ok {
				mf(e, st, args, depth, pos, k)
				return
			}
			e.unmodelled[name+" (invoke)"]++
			k(st, e.havoc(st, resultType(c.Signature()), "inv."+m.Name()))
			return
		}
	case VNil:
		e.panicPath(st, depth-1, "call of nil function at "+pos)
		return
	}
	// unknown function value (client callback): unconstrained result
	res := e.havoc(st, resultType(c.Signature()), "cb")
	// pointer-typed results (and pointer fields of struct results) may be nil: one path per choice
	alts := []Value{res}
	if tup, ok := res.(VTuple); ok {
		for i, el := range tup.E {
			switch x := el.(type) {
			case VPtr:
				n := len(alts)
				for j := 0; j < n; j++ {
					t2 := alts[j].(VTuple)
					ne := append([]Value{}, t2.E...)
					ne[i] = VNil{}
					alts = append(alts, VTuple{ne})
				}
			case VStruct:
				for fi, fv := range x.F {
					if _, isPtr := fv.(VPtr); isPtr {
						n := len(alts)
						for j := 0; j < n; j++ {
							t2 := alts[j].(VTuple)
							ne := append([]Value{}, t2.E...)
							sv := ne[i].(VStruct)
							nf := append([]Value{}, sv.F...)
							nf[fi] = VNil{}
							ne[i] = VStruct{nf}
							alts = append(alts, VTuple{ne})
						}
					}
				}
			}
		}
	} else if _, ok := res.(VPtr); ok {
		alts = append(alts, VNil{})
	}
	for ai, alt := range alts {
		s2 := st
		if ai < len(alts)-1 {
			s2 = st.clone()
		}
		s2.addTrace(TraceEv{Kind: "callback", Pos: pos, Args: args, Extra: alt, Typ: resultType(c.Signature())})
		if e.callbacksWriteDB {
			// a client callback may itself use the API: the tables are arbitrary afterwards (snapshot kept for contracts)
			e.havocDB(s2, "aftercb")
		}
		k(s2, alt)
	}
}

func resultType(sig *types.Signature) types.Type {
	switch sig.Results().Len() {
	case 0:
		return nil
	case 1:
		return sig.Results().At(0).Type()
	}
	return sig.Results()
}

func (e *Engine) lookupMethod(t types.Type, m *types.Func) *ssa.Function {
	if t == nil {
		return nil
	}
	ms := e.prog.MethodSets.MethodSet(t)
	sel := ms.Lookup(m.Pkg(), m.Name())
	if sel == nil {
		return nil
	}
	return e.prog.MethodValue(sel)
}

func fnName(fn *ssa.Function) string {
	if o := fn.Origin(); o != nil {
		return o.String()
	}
	return fn.String()
}

// callNamed dispatches a call to a known function: model, contract, inline or havoc.
func (e *Engine) callNamed(st *State, fn *ssa.Function, args []Value, bind []Value, depth int, pos string, k func(*State, Value)) {
	name := fnName(fn)
	if mf, ok := models[name]; ok {
		mf(e, st, args, depth, pos, k)
		return
	}
	if name == "(*"+rosmarPkg+".HybridLogicalClock).Now" && e.curFn != name {
		k0 := k
		k = func(st *State, ret Value) {
			if s, ok := ret.(VSym); ok {
				st.casDraws = append(st.casDraws, s.T)
				st.addTrace(TraceEv{Kind: "hlcnow", Pos: pos, Terms: map[string]Term{"cas": s.T}})
			}
			k0(st, ret)
		}
	}
	inPkg := fn.Pkg == e.pkg || (fn.Pkg == nil && fn.Origin() != nil && fn.Origin().Pkg == e.pkg) ||
		(fn.Parent() != nil && rootPkg(fn) == e.pkg)
	if inPkg && len(fn.Blocks) > 0 {
		if name != e.curFn && e.contracts != nil {
			if ct := e.contracts.lookup(name); ct != nil && ct.Modular && e.modularHere(ct) {
				e.callByContract(st, fn, ct, args, depth, pos, k)
				return
			}
		}
		e.callFunction(st, fn, args, bind, depth, k)
		return
	}
	if len(fn.Blocks) > 0 && inlineExternal(fn) {
		e.callFunction(st, fn, args, bind, depth, k)
		return
	}
	e.externCall(st, fn, args, depth, k)
}

func rootPkg(fn *ssa.Function) *ssa.Package {
	for fn.Parent() != nil {
		fn = fn.Parent()
	}
	if fn.Pkg != nil {
		return fn.Pkg
	}
	if o := fn.Origin(); o != nil {
		return o.Pkg
	}
	return nil
}

// inlineExternal: small, pure functions of dependencies that are executed in place.
func inlineExternal(fn *ssa.Function) bool {
	n := fnName(fn)
	switch {
	case strings.HasPrefix(n, "(github.com/couchbase/sg-bucket.DataStoreNameImpl)."),
		strings.HasPrefix(n, "(*github.com/couchbase/sg-bucket.DataStoreNameImpl)."):
		return !strings.HasSuffix(n, ".String")
	}
	return false
}

func (e *Engine) externCall(st *State, fn *ssa.Function, args []Value, depth int, k func(*State, Value)) {
	name := fnName(fn)
	if mf, ok := models[name]; ok {
		mf(e, st, args, depth, "", k)
		return
	}
	e.unmodelled[name]++
	// calls to unmodelled externals are visible to contracts as events "ext:<Name>" (arguments kept)
	res := e.havoc(st, resultType(fn.Signature), "ext."+fn.Name())
	st.addTrace(TraceEv{Kind: "ext:" + fn.Name(), Args: args, Extra: res})
	k(st, res)
}

// ---------------------------------------------------------------------------
// Builtins

func (e *Engine) builtin(st *State, name string, args []Value, c *ssa.CallCommon, depth int, pos string, k func(*State, Value)) {
	switch name {
	case "len", "cap":
		k(st, sym(e.lenOf(st, args[0])))
	case "append":
		k(st, e.appendOp(st, args, c))
	case "delete":
		e.mapDelete(st, args[0], args[1], pos)
		k(st, nil)
	case "close":
		st.addTrace(TraceEv{Kind: "closechan", Args: args, Pos: pos})
		k(st, nil)
	case "copy":
		k(st, e.havoc(st, types.Typ[types.Int], "copy"))
	case "print", "println":
		k(st, nil)
	case "min", "max":
		xs, ok1 := args[0].(VSym)
		ys, ok2 := args[1].(VSym)
		if ok1 && ok2 {
			if name == "min" {
				k(st, sym(Ite(Le(xs.T, ys.T), xs.T, ys.T)))
			} else {
				k(st, sym(Ite(Ge(xs.T, ys.T), xs.T, ys.T)))
			}
			return
		}
		k(st, e.havoc(st, resultType(c.Signature()), name))
	case "recover":
		k(st, VNil{})
	default:
		e.unmodelled["builtin "+name]++
		k(st, e.havoc(st, resultType(c.Signature()), name))
	}
}

func (e *Engine) lenOf(st *State, v Value) Term {
	switch a := v.(type) {
	case VNil:
		return IntLit(0)
	case VSym:
		switch a.T.Sort {
		case SBytes:
			l := App(SInt, "b.len", a.T)
			st.fact(Ge(l, IntLit(0)))
			return l
		case SStr:
			if s, ok := e.reverseStr(a.T.S); ok {
				return IntLit(int64(len(s)))
			}
			l := App(SInt, "s.len", a.T)
			st.fact(Ge(l, IntLit(0)))
			return l
		}
	case VSlice:
		return IntLit(int64(a.Hi - a.Lo))
	case VMap:
		return e.mapLen(st, a)
	case VAbs:
		if a.Kind == "strslice" {
			return a.Data.(*StrSlice).Len
		}
	}
	t := e.fresh(st, "len", SInt)
	st.assume(Ge(t, IntLit(0)))
	return t
}

func (e *Engine) appendOp(st *State, args []Value, c *ssa.CallCommon) Value {
	base := args[0]
	add := args[1]
	// []byte appends
	if bs, ok := base.(VSym); ok && bs.T.Sort == SBytes {
		if as, ok := add.(VSym); ok {
			if as.T.Sort == SBytes {
				r := App(SBytes, "b.concat", bs.T, as.T)
				st.fact(Not(Eq(r, nullB)))
				return sym(r)
			}
			if as.T.Sort == SStr {
				r := App(SBytes, "b.concat", bs.T, App(SBytes, "b.ofstr", as.T))
				st.fact(Not(Eq(r, nullB)))
				return sym(r)
			}
		}
	}
	var elems []Value
	switch a := add.(type) {
	case VSlice:
		arr, _ := st.heap[a.Cell].(VStruct)
		for i := a.Lo; i < a.Hi && i < len(arr.F); i++ {
			elems = append(elems, arr.F[i])
		}
	case VNil:
	default:
		return VUnknown{Typ: c.Signature().Results().At(0).Type(), Note: "append"}
	}
	var old []Value
	switch b := base.(type) {
	case VNil:
	case VSlice:
		arr, _ := st.heap[b.Cell].(VStruct)
		for i := b.Lo; i < b.Hi && i < len(arr.F); i++ {
			old = append(old, arr.F[i])
		}
	case VAbs:
		if b.Kind == "seq" {
			// abstract sequence: append elements
			s := b.Data.(*SeqObj).clone()
			s.Appended = append(s.Appended, elems...)
			return VAbs{Kind: "seq", ID: b.ID, Data: s}
		}
		return VUnknown{Typ: c.Signature().Results().At(0).Type(), Note: "append"}
	default:
		return VUnknown{Typ: c.Signature().Results().At(0).Type(), Note: "append"}
	}
	all := append(append([]Value{}, old...), elems...)
	cell := e.newCell(st, VStruct{all})
	return VSlice{Cell: cell, Lo: 0, Hi: len(all)}
}

// SeqObj is an abstract sequence with a symbolic prefix and concretely appended elements.
type SeqObj struct {
	Name     string
	Appended []Value
}

func (s *SeqObj) clone() *SeqObj {
	c := *s
	c.Appended = append([]Value(nil), s.Appended...)
	return &c
}

// StrSlice models a []string input: an SMT array Int->Str with a symbolic length.
type StrSlice struct {
	Arr Term
	Len Term
	Nil Term
	Off Term // index of element 0 in Arr ("" = 0): s[lo:hi] shares the array
}

// at: the i-th element
func (s *StrSlice) at(i Term) Term {
	if s.Off.S != "" {
		i = Add(s.Off, i)
	}
	return Select(s.Arr, i, SStr)
}

// ---------------------------------------------------------------------------
// Maps

func (e *Engine) mapObj(st *State, v Value) (*MapObj, int, bool) {
	m, ok := v.(VMap)
	if !ok {
		return nil, 0, false
	}
	obj, ok := st.heap[m.Cell].(*MapObj)
	return obj, m.Cell, ok
}

func (e *Engine) mapLen(st *State, m VMap) Term {
	obj, _, ok := e.mapObj(st, m)
	if !ok {
		return e.fresh(st, "maplen", SInt)
	}
	if obj.Struct {
		if obj.Fresh {
			// number of distinct keys: entries are keyed by term text; distinctness is not decided here
			if len(obj.Entries) == 0 {
				return IntLit(0)
			}
		}
		t := e.fresh(st, "maplen", SInt)
		st.assume(Ge(t, IntLit(0)))
		return t
	}
	if obj.Has.S != "" {
		lt := App(SInt, "m.len.has", obj.Has)
		e.needLenHas = true
		st.fact(Ge(lt, IntLit(0)))
		return lt
	}
	// len(m) == 0  <=>  all entries absent (array extensionality keeps this quantifier-free)
	eff := obj.Arr
	if obj.NilT.S != "" && !obj.NilT.IsFalse() {
		eff = Ite(obj.NilT, constArr(obj.KeySort, obj.ValSort, obj.Absent), obj.Arr)
	}
	lt := App(SInt, "m.len."+sortTag(obj.ValSort), eff)
	st.fact(Ge(lt, IntLit(0)))
	st.fact(Eq(Eq(lt, IntLit(0)), Eq(eff, constArr(obj.KeySort, obj.ValSort, obj.Absent))))
	return lt
}

func sortTag(s *Sort) string {
	switch s {
	case SBytes:
		return "b"
	case SJson:
		return "j"
	}
	return "x"
}

func (e *Engine) lookup(st *State, fr *Frame, in *ssa.Lookup) bool {
	x := e.operand(st, fr, in.X)
	idx := e.operand(st, fr, in.Index)
	// string indexing handled by ssa.Index; Lookup on string yields byte
	if xs, ok := x.(VSym); ok && xs.T.Sort == SStr {
		if is, ok := idx.(VSym); ok {
			st.wregs(fr)[in] = sym(App(SInt, "s.at", xs.T, is.T))
			return true
		}
	}
	mt, _ := in.X.Type().Underlying().(*types.Map)
	var val Value
	var found Term
	switch m := x.(type) {
	case VNil:
		if mt != nil {
			val, found = e.zeroOf(mt.Elem()), TFalse
		}
	case VMap:
		obj, _, ok := e.mapObj(st, m)
		if !ok {
			break
		}
		ks, isSym := idx.(VSym)
		if obj.Struct {
			key := showValue(idx)
			if v, ok := obj.Entries[key]; ok {
				val, found = v, TTrue
				if f, ok := obj.Found[key]; ok {
					found = f
				}
			} else if !obj.Fresh {
				// input map, key not met before: the entry may or may not exist. Explore both, remembering the answer.
				b := in.Block()
				idxI := 0
				for i, ins := range b.Instrs {
					if ins == in {
						idxI = i
					}
				}
				hasT := e.structHasTerm(st, obj, idx)
				st2 := st.clone()
				st2.assume(Not(hasT))
				st.assume(hasT)
				o2 := obj.clone()
				if o2.Found == nil {
					o2.Found = map[string]Term{}
				}
				o2.Entries[key] = e.zeroOf(mt.Elem())
				o2.Found[key] = TFalse
				if ks, ok := idx.(VSym); ok {
					o2.KeyTerms[key] = ks.T
				}
				st2.heap[m.Cell] = o2
				if in.CommaOk {
					st2.wregs(fr)[in] = VTuple{[]Value{e.zeroOf(mt.Elem()), sym(TFalse)}}
				} else {
					st2.wregs(fr)[in] = e.zeroOf(mt.Elem())
				}
				st2.addTrace(TraceEv{Kind: "maplookup.absent", Text: key, Pos: e.pos(in.Pos())})
				e.runFrom(st2, fr, b, idxI+1)
				o1 := obj.clone()
				if o1.Found == nil {
					o1.Found = map[string]Term{}
				}
				val = e.entryValue(st, obj, key)
				o1.Entries[key] = val
				o1.Found[key] = TTrue
				if ks, ok := idx.(VSym); ok {
					o1.KeyTerms[key] = ks.T
				}
				st.heap[m.Cell] = o1
				found = TTrue
				st.addTrace(TraceEv{Kind: "maplookup.present", Text: key, Pos: e.pos(in.Pos()), Extra: val, Typ: mt.Elem()})
			} else if obj.Fresh && allKeysConstDistinct(e, obj, idx) {
				val, found = e.zeroOf(mt.Elem()), TFalse
			} else {
				// unknown membership
				found = e.fresh(st, "mapfound", SBool)
				val = e.havoc(st, mt.Elem(), "mapval")
				if obj.Fresh && len(obj.Entries) == 0 {
					found = TFalse
					val = e.zeroOf(mt.Elem())
				}
			}
		} else if isSym && obj.Has.S != "" {
			st.addTrace(TraceEv{Kind: "mapread", Pos: e.pos(in.Pos()), Terms: map[string]Term{"m": IntLit(int64(m.Cell)), "k": ks.T}})
			raw := Select(obj.Arr, ks.T, obj.ValSort)
			if lo, hi, ok := intRange(mt.Elem()); ok {
				st.fact(And(Ge(raw, mkT(lo, SInt)), Le(raw, mkT(hi, SInt))))
			}
			found = Select(obj.Has, ks.T, SBool)
			zs := e.zeroOf(mt.Elem()).(VSym)
			val = sym(Ite(found, raw, zs.T))
		} else if isSym {
			st.addTrace(TraceEv{Kind: "mapread", Pos: e.pos(in.Pos()), Terms: map[string]Term{"m": IntLit(int64(m.Cell)), "k": ks.T}})
			raw := Select(obj.Arr, ks.T, obj.ValSort)
			found = Not(Eq(raw, obj.Absent))
			if obj.NilT.S != "" {
				found = And(Not(obj.NilT), found)
			}
			zero := e.zeroOf(mt.Elem())
			if zs, ok := zero.(VSym); ok && zs.T.Sort == obj.ValSort {
				val = sym(Ite(found, raw, zs.T))
			} else if obj.ValSort == SJson {
				// map[string]any: value is an opaque JSON value; absent -> nil interface
				val = VAbs{Kind: "json", ID: e.nextID(), Data: Ite(found, raw, mkT("JNULL", SJson))}
			} else {
				val = sym(raw)
			}
		}
	}
	if val == nil {
		if mt != nil {
			val = e.havoc(st, mt.Elem(), "lookup")
		} else {
			val = e.havoc(st, in.Type(), "lookup")
		}
		found = e.fresh(st, "found", SBool)
		st.notes = append(st.notes, "unmodelled map lookup at "+e.pos(in.Pos()))
	}
	if in.CommaOk {
		st.wregs(fr)[in] = VTuple{[]Value{val, sym(found)}}
	} else {
		st.wregs(fr)[in] = val
	}
	return true
}

func allKeysConstDistinct(e *Engine, obj *MapObj, idx Value) bool {
	is, ok := idx.(VSym)
	if !ok {
		return false
	}
	if _, ok := e.reverseStr(is.T.S); !ok {
		if _, ok := is.T.intConst(); !ok {
			return false
		}
	}
	for _, kt := range obj.KeyTerms {
		if _, ok := e.reverseStr(kt.S); !ok {
			if _, ok := kt.intConst(); !ok {
				return false
			}
		}
	}
	return true
}

func (e *Engine) mapUpdate(st *State, fr *Frame, in *ssa.MapUpdate) bool {
	m := e.operand(st, fr, in.Map)
	key := e.operand(st, fr, in.Key)
	val := e.operand(st, fr, in.Value)
	switch mv := m.(type) {
	case VNil:
		e.panicPath(st, fr.depth, "assignment to entry in nil map at "+e.pos(in.Pos()))
		return false
	case VMap:
		obj, cell, ok := e.mapObj(st, mv)
		if !ok {
			return true
		}
		if obj.NilT.S != "" && !obj.NilT.IsFalse() {
			// possibly nil: fork a panic path
			st2 := st.clone()
			st2.assume(obj.NilT)
			e.panicPath(st2, fr.depth, "assignment to entry in nil map at "+e.pos(in.Pos()))
			st.assume(Not(obj.NilT))
		}
		n := obj.clone()
		if n.Struct {
			ks := showValue(key)
			n.Entries[ks] = val
			if n.Found != nil {
				delete(n.Found, ks)
			}
			if kt, ok := key.(VSym); ok {
				n.KeyTerms[ks] = kt.T
			}
			st.addTrace(TraceEv{Kind: "mapupdate", Text: ks, Pos: e.pos(in.Pos())})
		} else {
			kt, ok1 := key.(VSym)
			if !ok1 {
				return true
			}
			vt := e.mapValTerm(st, n, val)
			n.Arr = Store(n.Arr, kt.T, vt)
			if n.Has.S != "" {
				n.Has = Store(n.Has, kt.T, TTrue)
			}
			st.addTrace(TraceEv{Kind: "mapupdate", Text: kt.T.S, Pos: e.pos(in.Pos()), Terms: map[string]Term{"k": kt.T, "v": vt, "m": IntLit(int64(cell))}})
		}
		st.heap[cell] = n
	default:
		st.notes = append(st.notes, "update of unmodelled map at "+e.pos(in.Pos()))
	}
	return true
}

func (e *Engine) mapValTerm(st *State, obj *MapObj, val Value) Term {
	switch v := val.(type) {
	case VSym:
		if v.T.Sort == obj.ValSort {
			return v.T
		}
	case VAbs:
		if v.Kind == "json" {
			return v.Data.(Term)
		}
	case VNil:
		if obj.ValSort == SJson {
			return mkT("JNULL", SJson)
		}
		if obj.ValSort == SBytes {
			return mkT("NULLB", SBytes)
		}
	case VIface:
		if obj.ValSort == SJson {
			return e.jsonOfValue(st, v)
		}
	}
	return e.fresh(st, "mapval", obj.ValSort)
}

func (e *Engine) mapDelete(st *State, m, key Value, pos string) {
	mv, ok := m.(VMap)
	if !ok {
		return
	}
	obj, cell, ok := e.mapObj(st, mv)
	if !ok {
		return
	}
	n := obj.clone()
	if n.Struct {
		if n.Fresh {
			delete(n.Entries, showValue(key))
			delete(n.KeyTerms, showValue(key))
		} else {
			// input map: remember that this key is now absent
			if n.Found == nil {
				n.Found = map[string]Term{}
			}
			n.Entries[showValue(key)] = VNil{}
			n.Found[showValue(key)] = TFalse
		}
	} else if kt, ok := key.(VSym); ok && n.Has.S != "" {
		n.Has = Store(n.Has, kt.T, TFalse)
	} else if kt, ok := key.(VSym); ok {
		if n.NilT.S != "" && !n.NilT.IsFalse() {
			n.Arr = Ite(n.NilT, n.Arr, Store(n.Arr, kt.T, n.Absent))
		} else {
			n.Arr = Store(n.Arr, kt.T, n.Absent)
		}
	}
	st.heap[cell] = n
	dt := map[string]Term{"m": IntLit(int64(cell))}
	if kt, ok := key.(VSym); ok {
		dt["k"] = kt.T
		// whether the key was present before the delete (maps with an SMT image)
		if !obj.Struct && obj.Has.S != "" {
			dt["present"] = Select(obj.Has, kt.T, SBool)
		} else if !obj.Struct && obj.Absent.S != "" {
			p := Not(Eq(Select(obj.Arr, kt.T, obj.ValSort), obj.Absent))
			if obj.NilT.S != "" && !obj.NilT.IsFalse() {
				p = And(Not(obj.NilT), p)
			}
			dt["present"] = p
		}
	}
	st.addTrace(TraceEv{Kind: "mapdelete", Pos: pos, Args: []Value{m, key}, Terms: dt})
}

// ---------------------------------------------------------------------------
// Type assertions

func (e *Engine) typeAssert(st *State, fr *Frame, in *ssa.TypeAssert) bool {
	x := e.operand(st, fr, in.X)
	var okT Term
	var val Value
	switch a := x.(type) {
	case VNil:
		okT = TFalse
	case VIface:
		if id, isOpaque := opaqueErrID(a); isOpaque {
			// error of symbolic class (result of a modular call): the assertion succeeds iff it is of that class
			tn := sanitize(in.AssertedType.String())
			if n, ok := in.AssertedType.(*types.Named); ok {
				tn = n.Obj().Name()
			}
			okT = st.declare(fmt.Sprintf("err.%d.is.%s", id, tn), SBool)
			if typeIsPkg(in.AssertedType, "github.com/mattn/go-sqlite3", "Error") {
				// A-BUSY: whatever SQLite error it is, it is not BUSY/LOCKED
				if dv, ok := e.dbError(st).(VIface); ok {
					val = dv.V
					break
				}
			}
			val = e.havoc(st, in.AssertedType, "asserted")
			break
		}
		if a.Typ == nil {
			okT = TFalse
			break
		}
		if it, isIface := in.AssertedType.Underlying().(*types.Interface); isIface {
			if types.Implements(a.Typ, it) {
				okT, val = TTrue, a
			} else {
				okT = TFalse
			}
		} else if types.Identical(a.Typ, in.AssertedType) {
			okT, val = TTrue, a.V
		} else {
			okT = TFalse
		}
	case VAbs:
		if a.Kind == "json" {
			// opaque JSON value: assertion to a concrete type is undetermined
			okT = e.fresh(st, "jsonis."+sanitize(in.AssertedType.String()), SBool)
			val = e.jsonAs(st, a, in.AssertedType)
		}
	}
	if okT.S == "" {
		// symbolic interface value
		if u, ok := x.(VUnknown); ok && u.ID != 0 {
			tn := sanitize(in.AssertedType.String())
			okT = st.declare(fmt.Sprintf("unk.%d.is.%s", u.ID, tn), SBool)
		} else {
			okT = e.fresh(st, "typeis", SBool)
		}
		val = e.havoc(st, in.AssertedType, "asserted")
		if typeIsPkg(in.AssertedType, "github.com/mattn/go-sqlite3", "Error") {
			// A-BUSY: whatever SQLite error it is, it is not BUSY/LOCKED
			if dv, ok := e.dbError(st).(VIface); ok {
				val = dv.V
			}
		}
	}
	if val == nil {
		val = e.zeroOf(in.AssertedType)
	}
	if in.CommaOk {
		if !okT.IsConst() {
			// keep value consistent with ok
		}
		st.wregs(fr)[in] = VTuple{[]Value{val, sym(okT)}}
		return true
	}
	if okT.IsFalse() {
		e.panicPath(st, fr.depth, fmt.Sprintf("type assertion to %s failed at %s", in.AssertedType, e.pos(in.Pos())))
		return false
	}
	if !okT.IsTrue() {
		st2 := st.clone()
		st2.assume(Not(okT))
		e.panicPath(st2, fr.depth, fmt.Sprintf("type assertion to %s may fail at %s", in.AssertedType, e.pos(in.Pos())))
		st.assume(okT)
	}
	st.wregs(fr)[in] = val
	return true
}

// ---------------------------------------------------------------------------
// Range over maps / strings (concrete structure only; symbolic maps need the loop rule in loops.go)

type rangeIter struct {
	arbitrary *types.Map
	obj       *MapObj
	keys []Term
	vals []Value
	pos  int
	sym  *symRange
}

func (e *Engine) rangeInit(st *State, fr *Frame, in *ssa.Range) bool {
	x := e.operand(st, fr, in.X)
	it := &rangeIter{}
	switch m := x.(type) {
	case VNil:
	case VMap:
		obj, _, ok := e.mapObj(st, m)
		if !ok {
			break
		}
		if obj.Struct && obj.Fresh {
			for _, k := range obj.sortedKeys() {
				it.keys = append(it.keys, obj.KeyTerms[k])
				it.vals = append(it.vals, obj.Entries[k])
			}
		} else if obj.Struct {
			// input map with structured values: arbitrary-entry iteration under the generic loop rule
			it.arbitrary = obj.Typ
			it.obj = obj
		} else if obj.Has.S != "" {
			st.incomplete = "range over a presence-tracked scalar map is not modelled at " + e.pos(in.Pos())
			e.endPath(st)
			return false
		} else {
			it.sym = e.symRangeInit(st, fr, in, obj, m.Cell)
		}
	default:
		st.incomplete = "range over unmodelled value at " + e.pos(in.Pos())
		e.endPath(st)
		return false
	}
	st.wregs(fr)[in] = VAbs{Kind: "iter", ID: e.nextID(), Data: it}
	return true
}

func (e *Engine) rangeNext(st *State, fr *Frame, in *ssa.Next) bool {
	itv, ok := e.operand(st, fr, in.Iter).(VAbs)
	if !ok || itv.Kind != "iter" {
		st.incomplete = "next on unmodelled iterator at " + e.pos(in.Pos())
		e.endPath(st)
		return false
	}
	it := itv.Data.(*rangeIter)
	tt := in.Type().(*types.Tuple)
	if it.sym != nil {
		return e.symRangeNext(st, fr, in, it)
	}
	if it.arbitrary != nil {
		if e.loopInvariants(fr.fn, headerOrdinal(in.Block())) == nil && !e.autoCut[fmt.Sprintf("%s/%d", fr.fn.String(), in.Block().Index)] {
			if e.autoCutWant != nil {
				e.autoCutWant[fmt.Sprintf("%s/%d", fr.fn.String(), in.Block().Index)] = true
			}
			st.incomplete = fmt.Sprintf("range over an input map without a loop invariant (loop %d of %s) at %s", headerOrdinal(in.Block()), fr.fn.Name(), e.pos(in.Pos()))
			e.endPath(st)
			return false
		}
		// done, or an arbitrary entry (non-nil values for pointer-typed elements)
		b := in.Block()
		idxI := 0
		for i, ins := range b.Instrs {
			if ins == in {
				idxI = i
			}
		}
		st2 := st.clone()
		st2.wregs(fr)[in] = VTuple{[]Value{sym(TFalse), e.zeroOf(tt.At(1).Type()), e.zeroOf(tt.At(2).Type())}}
		e.runFrom(st2, fr, b, idxI+1)
		rk := e.havoc(st, it.arbitrary.Key(), "rangekey")
		if obj := it.obj; obj != nil {
			// the key the iteration yields is a key of the map
			st.assume(e.structHasTerm(st, obj, rk))
		}
		st.wregs(fr)[in] = VTuple{[]Value{sym(TTrue), rk, e.havoc(st, it.arbitrary.Elem(), "rangeval")}}
		return true
	}
	// the iterator position is path state: keep it in the state's visits map keyed by iterator id
	key := fmt.Sprintf("iter/%d", itv.ID)
	pos := st.visits[key]
	if pos < len(it.keys) {
		st.visits[key] = pos + 1
		var kv Value = sym(it.keys[pos])
		st.wregs(fr)[in] = VTuple{[]Value{sym(TTrue), kv, it.vals[pos]}}
	} else {
		st.wregs(fr)[in] = VTuple{[]Value{sym(TFalse), e.zeroOf(tt.At(1).Type()), e.zeroOf(tt.At(2).Type())}}
	}
	return true
}

// entryValue: the (lazily materialised) value of an existing entry of a structured input map, named by map and key so
// that every state and the contract evaluator agree on it.
func (e *Engine) entryValue(st *State, obj *MapObj, key string) Value {
	name := obj.Name
	if name == "" {
		name = fmt.Sprintf("map%d", e.nextID())
	}
	if sh, ok := e.entryShapes[name]; ok && strings.HasPrefix(sh, "slice") {
		if sl, ok := obj.Typ.Elem().Underlying().(*types.Slice); ok {
			var n int
			fmt.Sscanf(sh[5:], "%d", &n)
			elems := make([]Value, n)
			for j := range elems {
				elems[j] = e.symbolicOf(st, sl.Elem(), fmt.Sprintf("%s[%s].%d", name, key, j), 0)
			}
			return VSlice{Cell: e.newCell(st, VStruct{elems}), Lo: 0, Hi: n}
		}
	}
	return e.symbolicOf(st, obj.Typ.Elem(), name+"["+key+"]", 0)
}

// modularHere: is the callee's contract used instead of its body while verifying the current function?
func (e *Engine) modularHere(ct *Contract) bool {
	if len(ct.ModularIn) == 0 {
		return true
	}
	cur := e.contracts.lookup(e.curFn)
	if cur == nil {
		return false
	}
	for _, n := range ct.ModularIn {
		if n == cur.Short || strings.HasSuffix(cur.Short, "."+n) {
			return true
		}
	}
	return false
}

// structHasTerm: "the structured input map has an entry for this key". For scalar keys it is one symbolic set per map
// (so that contracts can quantify over keys); for composite keys one Bool per syntactic key.
func (e *Engine) structHasTerm(st *State, obj *MapObj, key Value) Term {
	if ks, ok := key.(VSym); ok && (ks.T.Sort == SStr || ks.T.Sort == SInt) {
		set := SSSet
		if ks.T.Sort == SInt {
			set = SISet
		}
		return Select(st.declare("maphasset."+sanitize(obj.Name), set), ks.T, SBool)
	}
	return st.declare(fmt.Sprintf("maphas.%s.%s", sanitize(obj.Name), sanitize(showValue(key))), SBool)
}
