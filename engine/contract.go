package main

// The contract file: /repo/verif_contracts.go (build tag verif, comments only).

import (
	"fmt"
	"os"
	"regexp"
	"sort"
	"strconv"
	"strings"
)

type Clause struct {
	Kind  string // requires ensures mustfail cover invariant
	Props []string
	Name  string
	Src   string
	Node  *rNode
	On    string // "" normal return; "panic"; "any"
	Only  string // non-empty: the clause is checked in this variant only (a bounded shape; labelled bounded)
	Line  int
}

type Let struct {
	Name string
	Node *rNode
	Src  string
}

type Contract struct {
	Fn       string
	Short    string
	Lets     []Let
	Requires []Clause
	Ensures  []Clause
	MustFail []Clause
	Covers   []Clause
	Loops    map[int][]Clause
	Flags    map[string]string
	Modular  bool
	ModularIn []string
	Nullable map[string]bool
	Line     int
	Variants []Variant // input-shape variants: each is checked separately
}

type Variant struct {
	Name string
	Sets map[string]string // parameter -> shape directive
}

type ContractSet struct {
	fns       map[string]*Contract
	order     []string
	specs     map[string]*SpecFn
	templates map[string][]string
	ufuns     map[string]uFun
	dbInv     *rNode
	dbInvSrc  string
	smt       []string // extra SMT prelude lines (declarations and axioms of the spec vocabulary)
	smtX      []string // same, only included when the xattr vocabulary is in use
	file      string
	assumes   []string
	// candidates: invariants tried (Houdini-style) on map-range loops that have no invariant of their own, e.g. a
	// loop moved into a new helper by a refactoring. A candidate is used only where it is proved inductive.
	candidates []Clause
}

func (cs *ContractSet) lookup(fn string) *Contract { return cs.fns[fn] }

var inVariantRe = regexp.MustCompile(`^in ([A-Za-z0-9_]+):`)

var tagRe = regexp.MustCompile(`^\[([A-Z0-9,]+):([A-Za-z0-9_.$-]+)\]\s*`)

func loadContracts(path string) (*ContractSet, error) {
	data, err := os.ReadFile(path)
	if err != nil {
		return nil, err
	}
	cs := &ContractSet{fns: map[string]*Contract{}, specs: map[string]*SpecFn{}, templates: map[string][]string{},
		ufuns: map[string]uFun{}, file: path}
	// collect //@ lines, joining continuation lines
	type item struct {
		text string
		line int
	}
	var items []item
	keywords := map[string]bool{"fn": true, "spec": true, "requires": true, "ensures": true, "mustfail": true, "cover": true,
		"let": true, "modular": true, "flag": true, "loop": true, "nullable": true, "template": true, "use": true, "smt": true,
		"smtx": true, "dbinvariant": true, "candidate": true, "fun": true, "funx": true, "end": true, "variant": true, "onpanic": true, "onany": true}
	for i, raw := range strings.Split(string(data), "\n") {
		t := strings.TrimSpace(raw)
		if !strings.HasPrefix(t, "//@") {
			continue
		}
		t = strings.TrimSpace(t[3:])
		if idx := strings.Index(t, " //"); idx >= 0 {
			t = strings.TrimSpace(t[:idx])
		}
		if t == "" {
			continue
		}
		first := strings.Fields(t)[0]
		if keywords[first] || len(items) == 0 {
			items = append(items, item{t, i + 1})
		} else {
			items[len(items)-1].text += " " + t
		}
	}
	var cur *Contract
	var curTemplate string
	addClause := func(ct *Contract, kind, rest string, line int, on string) error {
		cl := Clause{Kind: kind, Line: line, On: on}
		if m := tagRe.FindStringSubmatch(rest); m != nil {
			cl.Props = strings.Split(m[1], ",")
			cl.Name = m[2]
			rest = rest[len(m[0]):]
		}
		if m := inVariantRe.FindStringSubmatch(rest); m != nil {
			cl.Only = m[1]
			rest = strings.TrimSpace(rest[len(m[0]):])
		}
		if strings.HasPrefix(rest, "panic:") {
			cl.On = "panic"
			rest = strings.TrimSpace(rest[6:])
		} else if strings.HasPrefix(rest, "any:") {
			cl.On = "any"
			rest = strings.TrimSpace(rest[4:])
		}
		cl.Src = rest
		n, err := parseRSL(rest)
		if err != nil {
			return fmt.Errorf("%s:%d: %v", path, line, err)
		}
		cl.Node = n
		if cl.Name == "" {
			cl.Name = fmt.Sprintf("%s@%d", kind, line)
		}
		cl.Name = strings.ReplaceAll(cl.Name, "$fn", ct.Short)
		switch kind {
		case "requires":
			ct.Requires = append(ct.Requires, cl)
		case "ensures":
			ct.Ensures = append(ct.Ensures, cl)
		case "mustfail":
			ct.MustFail = append(ct.MustFail, cl)
		case "cover":
			ct.Covers = append(ct.Covers, cl)
		}
		return nil
	}
	var handle func(t string, line int) error
	handle = func(t string, line int) error {
		fields := strings.Fields(t)
		kw := fields[0]
		rest := strings.TrimSpace(t[len(kw):])
		if curTemplate != "" && kw != "template" && kw != "fn" && kw != "spec" && kw != "end" {
			cs.templates[curTemplate] = append(cs.templates[curTemplate], t)
			return nil
		}
		switch kw {
		case "end":
			curTemplate = ""
			cur = nil
		case "template":
			curTemplate = rest
			cur = nil
		case "dbinvariant":
			// dbinvariant <expr over r>: holds for every row whenever the tables are havocked (assumed), because every
			// mutator under contract proves it for the row it addresses and leaves the other rows alone
			n, err := parseRSL(rest)
			if err != nil {
				return fmt.Errorf("%s:%d: %v", path, line, err)
			}
			cs.dbInv = n
			cs.dbInvSrc = rest
		case "candidate":
			// candidate maprange <expr over it, it0, visited>
			r2 := strings.TrimSpace(strings.TrimPrefix(rest, "maprange"))
			n, err := parseRSL(r2)
			if err != nil {
				return fmt.Errorf("%s:%d: %v", path, line, err)
			}
			cs.candidates = append(cs.candidates, Clause{Kind: "invariant", Node: n, Src: r2, Line: line})
		case "smt":
			cs.smt = append(cs.smt, rest)
		case "smtx":
			cs.smtX = append(cs.smtX, rest)
		case "fun", "funx":
			// fun name(Sort,Sort) Sort
			m := regexp.MustCompile(`^([A-Za-z0-9_.]+)\(([^)]*)\)\s*(.+)$`).FindStringSubmatch(rest)
			if m == nil {
				return fmt.Errorf("%s:%d: bad fun declaration", path, line)
			}
			var args []string
			for _, a := range strings.Split(m[2], ",") {
				a = strings.TrimSpace(a)
				if a != "" {
					s := sortBySpecName(a)
					if s == nil {
						return fmt.Errorf("%s:%d: unknown sort %s", path, line, a)
					}
					args = append(args, s.Name)
				}
			}
			ret := sortBySpecName(strings.TrimSpace(m[3]))
			if ret == nil {
				return fmt.Errorf("%s:%d: unknown sort %s", path, line, m[3])
			}
			decl := fmt.Sprintf("(declare-fun %s (%s) %s)", m[1], strings.Join(args, " "), ret.Name)
			if kw == "funx" {
				cs.smtX = append(cs.smtX, decl)
			} else {
				cs.smt = append(cs.smt, decl)
			}
			cs.ufuns[m[1]] = uFun{ret: ret, needX: kw == "funx"}
		case "spec":
			curTemplate = ""
			m := regexp.MustCompile(`^([A-Za-z0-9_]+)\(([^)]*)\)\s*=\s*(.+)$`).FindStringSubmatch(rest)
			if m == nil {
				return fmt.Errorf("%s:%d: bad spec", path, line)
			}
			sp := &SpecFn{Name: m[1], Src: m[3]}
			for _, p := range strings.Split(m[2], ",") {
				p = strings.TrimSpace(p)
				if p != "" {
					sp.Params = append(sp.Params, strings.Fields(p)[0])
				}
			}
			n, err := parseRSL(m[3])
			if err != nil {
				return fmt.Errorf("%s:%d: %v", path, line, err)
			}
			sp.Body = n
			cs.specs[sp.Name] = sp
		case "fn":
			curTemplate = ""
			name := rest
			full := name
			if !strings.Contains(name, "/") {
				// (*Collection).add -> (*github.com/couchbaselabs/rosmar.Collection).add
				if strings.HasPrefix(name, "(*") {
					full = "(*" + rosmarPkg + "." + name[2:]
				} else if strings.HasPrefix(name, "(") {
					full = "(" + rosmarPkg + "." + name[1:]
				} else {
					full = rosmarPkg + "." + name
				}
			}
			// short name: Type.method for methods (receiver without pointer / type parameters), else the function name
			short := name
			if strings.HasPrefix(short, "(") {
				if j := strings.Index(short, ")."); j > 0 {
					recv := strings.TrimPrefix(short[1:j], "*")
					if k := strings.Index(recv, "["); k >= 0 {
						recv = recv[:k]
					}
					if k := strings.LastIndex(recv, "."); k >= 0 {
						recv = recv[k+1:]
					}
					short = recv + "." + short[j+2:]
				}
			} else if i := strings.LastIndex(short, "."); i >= 0 {
				short = short[i+1:]
			}
			if _, dup := cs.fns[full]; dup {
				return fmt.Errorf("%s:%d: duplicate contract for %s", path, line, name)
			}
			cur = &Contract{Fn: full, Short: short, Flags: map[string]string{}, Loops: map[int][]Clause{}, Nullable: map[string]bool{}, Line: line}
			cs.fns[full] = cur
			cs.order = append(cs.order, full)
		default:
			if cur == nil {
				return fmt.Errorf("%s:%d: %q outside a fn block", path, line, kw)
			}
			switch kw {
			case "requires", "ensures", "mustfail", "cover":
				return addClause(cur, kw, rest, line, "")
			case "let":
				m := regexp.MustCompile(`^([A-Za-z0-9_]+)\s*=\s*(.+)$`).FindStringSubmatch(rest)
				if m == nil {
					return fmt.Errorf("%s:%d: bad let", path, line)
				}
				n, err := parseRSL(m[2])
				if err != nil {
					return fmt.Errorf("%s:%d: %v", path, line, err)
				}
				cur.Lets = append(cur.Lets, Let{m[1], n, m[2]})
			case "modular":
				cur.Modular = true
				// `modular in=A,B`: only when verifying the named functions (others execute the body in place)
				for _, f := range fields[1:] {
					if strings.HasPrefix(f, "in=") {
						cur.ModularIn = strings.Split(f[3:], ",")
					}
				}
			case "flag":
				for _, f := range fields[1:] {
					if i := strings.Index(f, "="); i >= 0 {
						cur.Flags[f[:i]] = f[i+1:]
					} else {
						cur.Flags[f] = "1"
					}
				}
			case "nullable":
				for _, f := range fields[1:] {
					cur.Nullable[f] = true
				}
			case "variant":
				v := Variant{Name: fields[1], Sets: map[string]string{}}
				for _, f := range fields[2:] {
					if i := strings.Index(f, "="); i >= 0 {
						v.Sets[f[:i]] = f[i+1:]
					}
				}
				cur.Variants = append(cur.Variants, v)
			case "loop":
				// loop N invariant [tag] expr      (inductive: entry + preserved, assumed at the head)
				// loop N body [tag] expr           (per-iteration postcondition: asserted at the back edge only)
				if len(fields) >= 4 && fields[2] == "havoc" {
					nr, _ := strconv.Atoi(fields[1])
					n, err := parseRSL(strings.Join(fields[3:], " "))
					if err != nil {
						return fmt.Errorf("%s:%d: %v", path, line, err)
					}
					cur.Loops[nr] = append(cur.Loops[nr], Clause{Kind: "havoc", Node: n, Src: strings.Join(fields[3:], " "), Line: line,
						Name: fmt.Sprintf("%s.loop%d.havoc@%d", cur.Short, nr, line)})
					return nil
				}
				if len(fields) < 4 || (fields[2] != "invariant" && fields[2] != "body") {
					return fmt.Errorf("%s:%d: bad loop clause", path, line)
				}
				nr, _ := strconv.Atoi(fields[1])
				rest2 := strings.TrimSpace(strings.SplitN(t, " "+fields[2]+" ", 2)[1])
				cl := Clause{Kind: fields[2], Line: line}
				if m := tagRe.FindStringSubmatch(rest2); m != nil {
					cl.Props = strings.Split(m[1], ",")
					cl.Name = strings.ReplaceAll(m[2], "$fn", cur.Short)
					rest2 = rest2[len(m[0]):]
				}
				n, err := parseRSL(rest2)
				if err != nil {
					return fmt.Errorf("%s:%d: %v", path, line, err)
				}
				cl.Node, cl.Src = n, rest2
				if cl.Name == "" {
					cl.Name = fmt.Sprintf("%s.loop%d@%d", cur.Short, nr, line)
				}
				cur.Loops[nr] = append(cur.Loops[nr], cl)
			case "use":
				tl, ok := cs.templates[fields[1]]
				if !ok {
					return fmt.Errorf("%s:%d: unknown template %s", path, line, fields[1])
				}
				// template arguments: use NAME a=b c=d  (textual substitution of $a)
				subst := map[string]string{}
				for _, f := range fields[2:] {
					if i := strings.Index(f, "="); i >= 0 {
						subst["$"+f[:i]] = f[i+1:]
					}
				}
				for _, l := range tl {
					keys := make([]string, 0, len(subst))
					for k := range subst {
						keys = append(keys, k)
					}
					sort.Slice(keys, func(i, j int) bool { return len(keys[i]) > len(keys[j]) })
					for _, k := range keys {
						l = strings.ReplaceAll(l, k, subst[k])
					}
					if err := handle(l, line); err != nil {
						return err
					}
				}
			default:
				return fmt.Errorf("%s:%d: unknown keyword %q", path, line, kw)
			}
		}
		return nil
	}
	for _, it := range items {
		if err := handle(it.text, it.line); err != nil {
			return nil, err
		}
	}
	return cs, nil
}

func sortBySpecName(n string) *Sort {
	switch n {
	case "Int":
		return SInt
	case "Bool":
		return SBool
	case "Str":
		return SStr
	case "Bytes":
		return SBytes
	case "Row":
		return SRow
	case "DocId":
		return SDocId
	case "XMap":
		return SXMap
	case "Event":
		return SEvent
	case "StrSet":
		return SSSet
	case "Json":
		return SJson
	}
	return nil
}

// propsOf lists the properties a contract has clauses for.
func (ct *Contract) allClauses() []Clause {
	var out []Clause
	out = append(out, ct.Ensures...)
	out = append(out, ct.MustFail...)
	out = append(out, ct.Covers...)
	for _, ls := range ct.Loops {
		out = append(out, ls...)
	}
	return out
}

func hasProp(props []string, p string) bool {
	for _, q := range props {
		if q == p {
			return true
		}
	}
	return false
}
