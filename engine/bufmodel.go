package main

// bytes.Buffer as a sequence of pieces (used by queryIterator.NextBytes; bounded check of the row rendering).

import (
	"fmt"
	"go/types"
)

type BufObj struct {
	Pieces []Term // Bytes terms, in order
}

func (e *Engine) bufObj(st *State, v Value) (*BufObj, int, bool) {
	p, ok := v.(VPtr)
	if !ok || p.Path != "" {
		return nil, 0, false
	}
	switch c := st.heap[p.Cell].(type) {
	case *BufObj:
		return c, p.Cell, true
	case VStruct, VLazy:
		b := &BufObj{}
		st.heap[p.Cell] = b
		return b, p.Cell, true
	}
	return nil, 0, false
}

func byteLit(e *Engine, c int64) Term {
	return mkT(fmt.Sprintf("byte!%d", c), SBytes)
}

func bufWrite(piece func(e *Engine, st *State, a Value) (Term, bool), resTuple bool) modelFn {
	return func(e *Engine, st *State, args []Value, depth int, pos string, k func(*State, Value)) {
		b, cell, ok := e.bufObj(st, args[0])
		if ok {
			if t, ok := piece(e, st, args[1]); ok {
				nb := &BufObj{Pieces: append(append([]Term{}, b.Pieces...), t)}
				st.heap[cell] = nb
			} else {
				st.incomplete = "unmodelled bytes.Buffer write at " + pos
			}
		} else {
			st.notes = append(st.notes, "write to unmodelled buffer at "+pos)
		}
		if resTuple {
			k(st, VTuple{[]Value{sym(e.fresh(st, "n", SInt)), VNil{}}})
		} else {
			k(st, VNil{})
		}
	}
}

func registerBufModels() {
	models["(*bytes.Buffer).WriteByte"] = bufWrite(func(e *Engine, st *State, a Value) (Term, bool) {
		if s, ok := a.(VSym); ok {
			if n, ok := s.T.intConst(); ok {
				e.byteLits[n.Int64()] = true
				return byteLit(e, n.Int64()), true
			}
		}
		return Term{}, false
	}, false)
	models["(*bytes.Buffer).Write"] = bufWrite(func(e *Engine, st *State, a Value) (Term, bool) {
		if s, ok := a.(VSym); ok && s.T.Sort == SBytes {
			return s.T, true
		}
		return Term{}, false
	}, true)
	models["(*bytes.Buffer).WriteString"] = bufWrite(func(e *Engine, st *State, a Value) (Term, bool) {
		if s, ok := a.(VSym); ok && s.T.Sort == SStr {
			return App(SBytes, "b.ofstr", s.T), true
		}
		return Term{}, false
	}, true)
	models["(*bytes.Buffer).Len"] = func(e *Engine, st *State, args []Value, depth int, pos string, k func(*State, Value)) {
		b, _, ok := e.bufObj(st, args[0])
		if !ok {
			n := e.fresh(st, "buf.len", SInt)
			st.fact(Ge(n, IntLit(0)))
			k(st, sym(n))
			return
		}
		// the number of bytes written so far: one per byte literal, the length of every other piece
		total := IntLit(0)
		for _, p := range b.Pieces {
			if len(p.S) > 5 && p.S[:5] == "byte!" {
				total = Add(total, IntLit(1))
				continue
			}
			l := App(SInt, "b.len", p)
			st.fact(Ge(l, IntLit(0)))
			total = Add(total, l)
		}
		k(st, sym(total))
	}
	models["(*bytes.Buffer).Bytes"] = func(e *Engine, st *State, args []Value, depth int, pos string, k func(*State, Value)) {
		b, _, ok := e.bufObj(st, args[0])
		if !ok {
			k(st, e.havoc(st, types.NewSlice(types.Typ[types.Byte]), "buf.bytes"))
			return
		}
		// the rendered bytes: an uninterpreted term tagged with the piece sequence (kept for contracts)
		r := e.fresh(st, "bufbytes", SBytes)
		st.fact(Not(Eq(r, nullB)))
		st.bufResults = append(st.bufResults[:len(st.bufResults):len(st.bufResults)], bufResult{r, append([]Term{}, b.Pieces...)})
		k(st, sym(r))
	}
}

type bufResult struct {
	T      Term
	Pieces []Term
}
