package main

// RSL: the clause language of the contract file. A small Pratt parser and an evaluator to SMT terms.

import (
	"fmt"
	"go/types"
	"os"
	"strings"
)

type rNode struct {
	Op   string // num str id call field index unary binary old if with lit forall exists rowlit
	Text string
	Args []*rNode
	Names []string // field names for with / rowlit; bound var for forall
	Pos  int
}

type rTok struct {
	kind string // num str id op eof
	text string
	pos  int
}

func rslLex(src string) ([]rTok, error) {
	var toks []rTok
	i := 0
	for i < len(src) {
		c := src[i]
		switch {
		case c == ' ' || c == '\t' || c == '\n':
			i++
		case c >= '0' && c <= '9':
			j := i
			if c == '0' && i+1 < len(src) && (src[i+1] == 'x' || src[i+1] == 'X') {
				j = i + 2
				for j < len(src) && strings.ContainsRune("0123456789abcdefABCDEF", rune(src[j])) {
					j++
				}
			} else {
				for j < len(src) && src[j] >= '0' && src[j] <= '9' {
					j++
				}
			}
			toks = append(toks, rTok{"num", src[i:j], i})
			i = j
		case isIdentStart(c) || c == '$':
			j := i + 1
			for j < len(src) && (isIdentChar(src[j])) {
				j++
			}
			toks = append(toks, rTok{"id", src[i:j], i})
			i = j
		case c == '"':
			j := i + 1
			var sb strings.Builder
			for j < len(src) && src[j] != '"' {
				if src[j] == '\\' && j+1 < len(src) {
					j++
				}
				sb.WriteByte(src[j])
				j++
			}
			if j >= len(src) {
				return nil, fmt.Errorf("unterminated string")
			}
			toks = append(toks, rTok{"str", sb.String(), i})
			i = j + 1
		default:
			for _, op := range []string{"<==>", "==>", "::", "==", "!=", "<=", ">=", "&&", "||", "&^"} {
				if strings.HasPrefix(src[i:], op) {
					toks = append(toks, rTok{"op", op, i})
					i += len(op)
					goto next
				}
			}
			if strings.ContainsRune("+-*/%<>!()[]{},.:", rune(c)) {
				toks = append(toks, rTok{"op", string(c), i})
				i++
			} else {
				return nil, fmt.Errorf("unexpected %q at %d", c, i)
			}
		next:
		}
	}
	toks = append(toks, rTok{"eof", "", len(src)})
	return toks, nil
}

type rParser struct {
	toks []rTok
	p    int
}

func parseRSL(src string) (*rNode, error) {
	toks, err := rslLex(src)
	if err != nil {
		return nil, err
	}
	p := &rParser{toks: toks}
	n, err := p.expr(0)
	if err != nil {
		return nil, fmt.Errorf("%v in %q", err, src)
	}
	if p.peek().kind != "eof" {
		return nil, fmt.Errorf("trailing %q in %q", p.peek().text, src)
	}
	return n, nil
}

func (p *rParser) peek() rTok { return p.toks[p.p] }
func (p *rParser) next() rTok { t := p.toks[p.p]; p.p++; return t }
func (p *rParser) accept(op string) bool {
	if t := p.peek(); t.kind == "op" && t.text == op {
		p.p++
		return true
	}
	return false
}
func (p *rParser) acceptID(id string) bool {
	if t := p.peek(); t.kind == "id" && t.text == id {
		p.p++
		return true
	}
	return false
}
func (p *rParser) expect(op string) error {
	if !p.accept(op) {
		return fmt.Errorf("expected %q, got %q", op, p.peek().text)
	}
	return nil
}

var rslPrec = map[string]int{
	"<==>": 1, "==>": 2, "||": 3, "&&": 4,
	"==": 5, "!=": 5, "<": 5, "<=": 5, ">": 5, ">=": 5,
	"+": 6, "-": 6, "*": 7, "/": 7, "%": 7, "&^": 7,
}

func (p *rParser) expr(minPrec int) (*rNode, error) {
	l, err := p.unary()
	if err != nil {
		return nil, err
	}
	for {
		t := p.peek()
		if t.kind == "id" && t.text == "with" {
			p.next()
			if err := p.expect("{"); err != nil {
				return nil, err
			}
			n := &rNode{Op: "with", Args: []*rNode{l}}
			for !p.accept("}") {
				f := p.next()
				if f.kind != "id" {
					return nil, fmt.Errorf("field name expected, got %q", f.text)
				}
				if err := p.expect(":"); err != nil {
					return nil, err
				}
				v, err := p.expr(0)
				if err != nil {
					return nil, err
				}
				n.Names = append(n.Names, f.text)
				n.Args = append(n.Args, v)
				p.accept(",")
			}
			l = n
			continue
		}
		if t.kind != "op" {
			return l, nil
		}
		prec, ok := rslPrec[t.text]
		if !ok || prec < minPrec {
			return l, nil
		}
		p.next()
		np := prec + 1
		if t.text == "==>" { // right associative
			np = prec
		}
		r, err := p.expr(np)
		if err != nil {
			return nil, err
		}
		l = &rNode{Op: "binary", Text: t.text, Args: []*rNode{l, r}, Pos: t.pos}
	}
}

func (p *rParser) unary() (*rNode, error) {
	if p.accept("!") {
		x, err := p.unary()
		if err != nil {
			return nil, err
		}
		return &rNode{Op: "unary", Text: "!", Args: []*rNode{x}}, nil
	}
	if p.accept("-") {
		x, err := p.unary()
		if err != nil {
			return nil, err
		}
		return &rNode{Op: "unary", Text: "-", Args: []*rNode{x}}, nil
	}
	if p.accept("*") {
		x, err := p.unary()
		if err != nil {
			return nil, err
		}
		return &rNode{Op: "unary", Text: "*", Args: []*rNode{x}}, nil
	}
	return p.postfix()
}

func (p *rParser) postfix() (*rNode, error) {
	n, err := p.primary()
	if err != nil {
		return nil, err
	}
	for {
		switch {
		case p.accept("."):
			f := p.next()
			if f.kind != "id" {
				return nil, fmt.Errorf("field name expected after '.'")
			}
			n = &rNode{Op: "field", Text: f.text, Args: []*rNode{n}}
		case p.accept("["):
			idx, err := p.expr(0)
			if err != nil {
				return nil, err
			}
			if err := p.expect("]"); err != nil {
				return nil, err
			}
			n = &rNode{Op: "index", Args: []*rNode{n, idx}}
		default:
			return n, nil
		}
	}
}

func (p *rParser) primary() (*rNode, error) {
	t := p.next()
	switch t.kind {
	case "num":
		return &rNode{Op: "num", Text: t.text}, nil
	case "str":
		return &rNode{Op: "str", Text: t.text}, nil
	case "op":
		if t.text == "(" {
			e, err := p.expr(0)
			if err != nil {
				return nil, err
			}
			return e, p.expect(")")
		}
	case "id":
		switch t.text {
		case "if":
			c, err := p.expr(0)
			if err != nil {
				return nil, err
			}
			if !p.acceptID("then") {
				return nil, fmt.Errorf("expected then")
			}
			a, err := p.expr(0)
			if err != nil {
				return nil, err
			}
			if !p.acceptID("else") {
				return nil, fmt.Errorf("expected else")
			}
			b, err := p.expr(0)
			if err != nil {
				return nil, err
			}
			return &rNode{Op: "if", Args: []*rNode{c, a, b}}, nil
		case "forall", "exists":
			if !(p.p+1 < len(p.toks) && p.toks[p.p].kind == "id" && p.toks[p.p+1].kind == "op" && p.toks[p.p+1].text == ":") {
				return &rNode{Op: "id", Text: t.text}, nil
			}
			v := p.next()
			if err := p.expect(":"); err != nil {
				return nil, err
			}
			ty := p.next()
			if err := p.expect("::"); err != nil {
				return nil, err
			}
			body, err := p.expr(0)
			if err != nil {
				return nil, err
			}
			return &rNode{Op: t.text, Names: []string{v.text, ty.text}, Args: []*rNode{body}}, nil
		}
		if p.accept("(") {
			n := &rNode{Op: "call", Text: t.text}
			if !p.accept(")") {
				for {
					a, err := p.expr(0)
					if err != nil {
						return nil, err
					}
					n.Args = append(n.Args, a)
					if !p.accept(",") {
						break
					}
				}
				if err := p.expect(")"); err != nil {
					return nil, err
				}
			}
			return n, nil
		}
		if (t.text == "Row" || t.text == "Event") && p.accept("{") {
			n := &rNode{Op: "reclit", Text: t.text}
			for !p.accept("}") {
				f := p.next()
				if err := p.expect(":"); err != nil {
					return nil, err
				}
				v, err := p.expr(0)
				if err != nil {
					return nil, err
				}
				n.Names = append(n.Names, f.text)
				n.Args = append(n.Args, v)
				p.accept(",")
			}
			return n, nil
		}
		return &rNode{Op: "id", Text: t.text}, nil
	}
	return nil, fmt.Errorf("unexpected %q", t.text)
}

// ---------------------------------------------------------------------------
// evaluation

type SpecFn struct {
	Name   string
	Params []string
	Body   *rNode
	Src    string
}

// rEnv is the environment a clause is evaluated in.
type rEnv struct {
	e       *Engine
	pre     *State // state at function entry (clone)
	post    *State // state at the evaluation point
	useOld  bool
	useHead bool
	invClause bool // the clause under evaluation is a loop invariant (not a per-iteration body clause)
	useEntry bool
	headVars, entryVars map[string]Value // named locals as they were at the loop head / at loop entry
	vars    map[string]Value // lets, spec params, function params, results
	typs    map[string]types.Type
	specs   map[string]*SpecFn
	result  Value
	bound   map[string]Term
	err     error
	depth   int
	entry    *State // state when the current loop was entered (atentry)
	head     *State // state at the head of the current loop iteration (athead)
	iterKey  string // loop whose current iteration the iter() trace queries refer to
	assuming bool // the formula is being assumed: universally quantified facts become instantiable facts
	pol     int // polarity of the expression being evaluated: 1 positive, -1 negative, 0 unknown
}

func (env *rEnv) st() *State {
	if env.useHead && env.head != nil {
		return env.head
	}
	if env.useEntry && env.entry != nil {
		return env.entry
	}
	if env.useOld {
		return env.pre
	}
	return env.post
}

func (env *rEnv) fail(format string, a ...interface{}) Value {
	if env.err == nil {
		env.err = fmt.Errorf(format, a...)
	}
	return sym(TFalse)
}

var rowFields = map[string]struct {
	acc  string
	sort *Sort
}{
	"present": {"r.present", SBool}, "rowid": {"r.rowid", SInt}, "value": {"r.value", SBytes}, "cas": {"r.cas", SInt},
	"exp": {"r.exp", SInt}, "xattrs": {"r.xattrs", SBytes}, "isJSON": {"r.isJSON", SInt}, "tombstone": {"r.tombstone", SInt},
	"rev": {"r.rev", SInt},
}
var rowFieldOrder = []string{"present", "rowid", "value", "cas", "exp", "xattrs", "isJSON", "tombstone", "rev"}

var eventFields = map[string]struct {
	acc  string
	sort *Sort
}{
	"key": {"e.key", SStr}, "value": {"e.value", SBytes}, "isDeletion": {"e.isDeletion", SBool}, "isJSON": {"e.isJSON", SBool},
	"xattrs": {"e.xattrs", SBytes}, "cas": {"e.cas", SInt}, "exp": {"e.exp", SInt}, "rev": {"e.rev", SInt},
}
var eventFieldOrder = []string{"key", "value", "isDeletion", "isJSON", "xattrs", "cas", "exp", "rev"}

func (env *rEnv) term(n *rNode) Term {
	v := env.eval(n)
	switch x := v.(type) {
	case VSym:
		return x.T
	case VNil:
		return mkT("NULLB", SBytes)
	}
	env.fail("expression %s is not a scalar (%s)", nodeText(n), showValue(v))
	return TFalse
}

func nodeText(n *rNode) string {
	switch n.Op {
	case "id", "num", "str":
		return n.Text
	case "field":
		return nodeText(n.Args[0]) + "." + n.Text
	case "call":
		var as []string
		for _, a := range n.Args {
			as = append(as, nodeText(a))
		}
		return n.Text + "(" + strings.Join(as, ",") + ")"
	case "binary":
		return "(" + nodeText(n.Args[0]) + " " + n.Text + " " + nodeText(n.Args[1]) + ")"
	case "unary":
		return n.Text + nodeText(n.Args[0])
	}
	return n.Op
}

func (env *rEnv) eval(n *rNode) Value {
	if env.err != nil {
		return sym(TFalse)
	}
	e := env.e
	switch n.Op {
	case "num":
		var x int64
		if strings.HasPrefix(n.Text, "0x") {
			var u uint64
			fmt.Sscanf(n.Text[2:], "%x", &u)
			if u > 1<<63-1 {
				return sym(mkT(fmt.Sprintf("%d", u), SInt))
			}
			x = int64(u)
		} else {
			if len(n.Text) > 18 {
				return sym(mkT(n.Text, SInt))
			}
			fmt.Sscanf(n.Text, "%d", &x)
		}
		return sym(IntLit(x))
	case "str":
		return sym(e.strLit(n.Text))
	case "id":
		return env.ident(n.Text)
	case "unary":
		switch n.Text {
		case "!":
			env.pol = -env.pol
			t := env.term(n.Args[0])
			env.pol = -env.pol
			return sym(Not(t))
		case "-":
			return sym(Sub(IntLit(0), env.term(n.Args[0])))
		case "*":
			v := env.eval(n.Args[0])
			if p, ok := v.(VPtr); ok {
				return e.load(env.st(), p)
			}
			if sv, ok := v.(VSym); ok {
				// a parameter that used to be passed by pointer and is now passed by value: `*p` in a contract means
				// the value either way
				return sv
			}
			return env.fail("dereference of non-pointer %s", nodeText(n.Args[0]))
		}
	case "binary":
		return env.binary(n)
	case "if":
		savedPol := env.pol
		env.pol = 0
		c := env.term(n.Args[0])
		env.pol = savedPol
		if c.IsTrue() {
			return env.eval(n.Args[1])
		}
		if c.IsFalse() {
			return env.eval(n.Args[2])
		}
		a := env.eval(n.Args[1])
		b := env.eval(n.Args[2])
		as, ok1 := a.(VSym)
		bs, ok2 := b.(VSym)
		if ok1 && ok2 {
			return sym(Ite(c, as.T, bs.T))
		}
		if c.IsTrue() {
			return a
		}
		if c.IsFalse() {
			return b
		}
		return env.fail("if-then-else over non-scalars")
	case "field":
		return env.field(n)
	case "index":
		base := env.eval(n.Args[0])
		if l, ok := base.(rList); ok {
			idx, okc := constIndex(env.eval(n.Args[1]))
			if !okc {
				return env.fail("list index must be constant")
			}
			if idx < 0 || idx >= len(l.items) {
				// out of range: an unconstrained element (clauses guard with len())
				return l.zero(env)
			}
			return l.items[idx]
		}
		if mv, ok := base.(VMap); ok {
			return env.mapIndex(mv, env.eval(n.Args[1]), n)
		}
		if xa, ok := base.(VAbs); ok && xa.Kind == "strslice" {
			return sym(xa.Data.(*StrSlice).at(env.term(n.Args[1])))
		}
		if sl, ok := base.(VSlice); ok {
			if idx, okc := constIndex(env.eval(n.Args[1])); okc {
				if arr, ok := env.post.heap[sl.Cell].(VStruct); ok && idx >= 0 && sl.Lo+idx < sl.Hi && sl.Lo+idx < len(arr.F) {
					return arr.F[sl.Lo+idx]
				}
				return env.fail("index %d outside the slice %s", idx, nodeText(n.Args[0]))
			}
		}
		if _, isNil := base.(VNil); isNil {
			if mt, ok := env.typeOf(n.Args[0]).Underlying().(*types.Map); ok {
				if _, vs, absent, ok := mapSorts(mt); ok && absent.S != "" {
					_ = vs
					return sym(absent) // a nil map has no entries
				}
				return env.e.zeroOf(mt.Elem())
			}
		}
		if bs, ok := base.(VSym); ok {
			it := env.term(n.Args[1])
			switch bs.T.Sort {
			case SXMap:
				return sym(Select(bs.T, it, SBytes))
			case SColls:
				return sym(Select(bs.T, it, SInt))
			case SSSet, SISet:
				return sym(Select(bs.T, it, SBool))
			case SStrSeq:
				return sym(Select(bs.T, it, SStr))
			}
		}
		return env.fail("cannot index %s", nodeText(n.Args[0]))
	case "call":
		return env.call(n)
	case "with":
		base := env.term(n.Args[0])
		vals := map[string]Term{}
		for i, f := range n.Names {
			vals[f] = env.term(n.Args[i+1])
		}
		switch base.Sort {
		case SRow:
			args := []Term{}
			for _, f := range rowFieldOrder {
				if v, ok := vals[f]; ok {
					args = append(args, v)
					delete(vals, f)
				} else {
					args = append(args, Acc(rowFields[f].sort, rowFields[f].acc, base))
				}
			}
			if len(vals) > 0 {
				return env.fail("unknown Row field in with{}")
			}
			return sym(App(SRow, "mkRow", args...))
		}
		return env.fail("with{} on non-record")
	case "reclit":
		vals := map[string]Term{}
		for i, f := range n.Names {
			vals[f] = env.term(n.Args[i])
		}
		if n.Text == "Row" {
			var args []Term
			for _, f := range rowFieldOrder {
				v, ok := vals[f]
				if !ok {
					return env.fail("Row literal misses field %s", f)
				}
				args = append(args, v)
			}
			return sym(App(SRow, "mkRow", args...))
		}
		var args []Term
		for _, f := range eventFieldOrder {
			v, ok := vals[f]
			if !ok {
				return env.fail("Event literal misses field %s", f)
			}
			args = append(args, v)
		}
		return sym(App(SEvent, "mkEvent", args...))
	case "old":
	case "forall", "exists":
		name, ty := n.Names[0], n.Names[1]
		sort := sortByName(ty)
		if sort == nil {
			return env.fail("unknown sort %s", ty)
		}
		bv := mkT("q!"+name, sort)
		if env.assuming && n.Op == "forall" && env.pol == -1 {
			// assumed universal fact: instantiated later on the terms of each obligation
			body := n.Args[0]
			vars := copyVars(env.vars)
			typs, specs, eng, pre := env.typs, env.specs, env.e, env.pre
			head, entry, iterKey := env.head, env.entry, env.iterKey
			headVars, entryVars := env.headVars, env.entryVars
			// The fact speaks about the state in which it is assumed: it is evaluated in a snapshot of that state (maps
			// and cells as they were then), never in the later state whose goal it is instantiated for; only the
			// declarations and axiom instances the evaluation creates are carried over. A body that does not evaluate
			// yields no fact (true), never `false`.
			base := env.post.clone()
			env.post.addInst(sort, func(s *State, t Term) Term {
				// a shallow view of the snapshot (heap shared: evaluation only adds deterministic lazy cells) whose
				// declarations and axiom instances are sent to the state the fact is instantiated for
				snap := *base
				snap.sink = s
				sub := &rEnv{e: eng, pre: pre, post: &snap, vars: copyVars(vars), typs: typs, specs: specs, head: head, entry: entry, iterKey: iterKey, pol: -1, headVars: headVars, entryVars: entryVars}
				sub.vars[name] = sym(t)
				r := sub.term(body)
				if sub.err != nil {
					if os.Getenv("ROSVC_DEBUGRSL") != "" {
						fmt.Fprintf(os.Stderr, "DEBUG assumed universal does not evaluate: %v\n", sub.err)
					}
					return TTrue
				}
				return r
			})
			return sym(TTrue)
		}
		skolem := (n.Op == "forall" && env.pol == 1) || (n.Op == "exists" && env.pol == -1)
		if skolem {
			bv = env.e.fresh(env.post, "sk."+name, sort)
		}
		saved, had := env.vars[name]
		env.vars[name] = sym(bv)
		np := len(env.post.pc)
		body := env.term(n.Args[0])
		if had {
			env.vars[name] = saved
		} else {
			delete(env.vars, name)
		}
		if skolem {
			return sym(body)
		}
		// axiom instances created while evaluating the body may mention the bound variable: they belong under the
		// binder (as hypotheses of the body), not among the path's facts where the variable would be free
		if np <= len(env.post.pc) {
			var keep, inner []Term
			keep = append(keep, env.post.pc[:np]...)
			for _, f := range env.post.pc[np:] {
				if strings.Contains(f.S, bv.S) {
					inner = append(inner, f)
					delete(env.post.declSet, "fact:"+f.S)
				} else {
					keep = append(keep, f)
				}
			}
			if len(inner) > 0 {
				env.post.pc = keep
				if n.Op == "forall" {
					body = Implies(And(inner...), body)
				} else {
					body = And(append(inner, body)...)
				}
			}
		}
		return sym(mkT(fmt.Sprintf("(%s ((%s %s)) %s)", n.Op, bv.S, sort.Name, body.S), SBool))
	}
	return env.fail("cannot evaluate %s", n.Op)
}

func sortByName(n string) *Sort {
	switch n {
	case "Int":
		return SInt
	case "Bool":
		return SBool
	case "Str":
		return SStr
	case "Bytes":
		return SBytes
	case "Row":
		return SRow
	case "DocId":
		return SDocId
	}
	return nil
}

func (env *rEnv) binary(n *rNode) Value {
	op := n.Text
	switch op {
	case "&&":
		a := env.term(n.Args[0])
		if a.IsFalse() {
			return sym(TFalse)
		}
		return sym(And(a, env.term(n.Args[1])))
	case "||":
		a := env.term(n.Args[0])
		if a.IsTrue() {
			return sym(TTrue)
		}
		return sym(Or(a, env.term(n.Args[1])))
	case "==>":
		env.pol = -env.pol
		a := env.term(n.Args[0])
		env.pol = -env.pol
		if a.IsFalse() {
			return sym(TTrue)
		}
		if env.err != nil {
			return sym(TFalse)
		}
		// a consequent that cannot be evaluated on this path (e.g. it talks about a call that did not happen)
		// counts as false: the obligation then is that the antecedent does not hold here
		c := env.term(n.Args[1])
		if env.err != nil && env.pol >= 0 {
			if os.Getenv("ROSVC_DEBUGRSL") != "" {
				fmt.Fprintf(os.Stderr, "DEBUG consequent not evaluable: %v\n", env.err)
			}
			env.err = nil
			c = TFalse
		}
		return sym(Implies(a, c))
	case "<==>":
		savedPol := env.pol
		env.pol = 0
		defer func() { env.pol = savedPol }()
		return sym(Eq(env.term(n.Args[0]), env.term(n.Args[1])))
	case "==", "!=":
		savedPol := env.pol
		env.pol = 0
		a := env.eval(n.Args[0])
		b := env.eval(n.Args[1])
		env.pol = savedPol
		var t Term
		if _, isdb := a.(rDB); isdb {
			bb, ok := b.(rDB)
			if !ok {
				return env.fail("db compared with non-db")
			}
			t = dbEq(a.(rDB).g, bb.g)
		} else {
			t = env.e.valueEq(env.post, a, b)
		}
		if op == "!=" {
			t = Not(t)
		}
		return sym(t)
	}
	a := env.term(n.Args[0])
	b := env.term(n.Args[1])
	if op == "+" && a.Sort == SStr && b.Sort == SStr {
		return sym(env.e.strConcat(a, b))
	}
	switch op {
	case "<":
		return sym(Lt(a, b))
	case "<=":
		return sym(Le(a, b))
	case ">":
		return sym(Gt(a, b))
	case ">=":
		return sym(Ge(a, b))
	case "+":
		return sym(Add(a, b))
	case "-":
		return sym(Sub(a, b))
	case "*":
		return sym(Mul(a, b))
	case "/":
		return sym(App(SInt, "div", a, b))
	case "%":
		return sym(App(SInt, "mod", a, b))
	case "&^":
		if m, ok := b.intConst(); ok {
			mm := m.Int64() + 1
			return sym(Sub(a, App(SInt, "mod", a, IntLit(mm))))
		}
	}
	return env.fail("unsupported operator %s", op)
}

type rDB struct{ g Ghost }
type rList struct {
	items []Value
	kind  string
}

func (l rList) zero(env *rEnv) Value {
	switch l.kind {
	case "event":
		return sym(env.e.fresh(env.post, "noevent", SEvent))
	case "feedev":
		return sym(env.e.fresh(env.post, "nopush", SFeedEv))
	}
	return sym(env.e.fresh(env.post, "noitem", SInt))
}

func dbEq(a, b Ghost) Term {
	cs := []Term{Eq(a.Docs, b.Docs), Eq(a.BucketLastCas, b.BucketLastCas), Eq(a.CollLastCas, b.CollLastCas)}
	for k, v := range a.Vers {
		if w, ok := b.Vers[k]; ok {
			cs = append(cs, Eq(v, w))
		} else {
			cs = append(cs, TFalse)
		}
	}
	for k := range b.Vers {
		if _, ok := a.Vers[k]; !ok {
			cs = append(cs, TFalse)
		}
	}
	return And(cs...)
}

func (env *rEnv) ident(name string) Value {
	if name == "db" {
		// the ghost database; a Go parameter or local that happens to be called db does not shadow it (contracts
		// reach such a parameter through callarg())
		return rDB{env.st().g}
	}
	if env.useEntry && env.entryVars != nil {
		if v, ok := env.entryVars[name]; ok {
			return v
		}
	}
	if env.useHead && env.headVars != nil {
		if v, ok := env.headVars[name]; ok {
			return v
		}
	}
	if v, ok := env.vars[name]; ok {
		return v
	}
	switch name {
	case "true":
		return sym(TTrue)
	case "false":
		return sym(TFalse)
	case "nil":
		return VNil{}
	case "NULL":
		return sym(nullB)
	case "NOX":
		return sym(mkT("NOX", SBytes))
	case "db":
		return rDB{env.st().g}
	case "docs":
		return sym(env.st().g.Docs)
	case "bucketLastCas":
		return sym(env.st().g.BucketLastCas)
	case "collLastCas":
		return sym(env.st().g.CollLastCas)
	case "MaxUint64":
		return sym(mkT("18446744073709551615", SInt))
	case "result":
		if env.result != nil {
			return env.result
		}
	case "newCas":
		if len(env.post.casDraws) > 0 {
			return sym(env.post.casDraws[0])
		}
		return sym(env.e.fresh(env.post, "nocas", SInt))
	case "now":
		if len(env.post.nows) > 0 {
			return sym(env.post.nows[0])
		}
		return sym(env.e.fresh(env.post, "nonow", SInt))
	case "posted":
		var items []Value
		for _, ev := range env.post.trace {
			if ev.Kind == "post" {
				items = append(items, sym(eventOfTrace(env.e, env.post, ev)))
			}
		}
		return rList{items, "event"}
	case "clockdraw":
		var items []Value
		for _, t := range env.post.clockDraws {
			items = append(items, sym(t))
		}
		return rList{items, "int"}
	case "panicked":
		return sym(BoolLit(env.post.panicked))
	case "committed":
		return sym(BoolLit(env.post.afterCommit))
	}
	// package-level variable of rosmar
	if g, ok := env.e.pkg.Members[name].(*ssaGlobal); ok {
		st := env.st()
		return env.e.load(st, VPtr{Cell: env.e.globalCell(st, g)})
	}
	return env.fail("unknown identifier %s", name)
}

func eventOfTrace(e *Engine, st *State, ev TraceEv) Term {
	get := func(n string, s *Sort) Term {
		if t, ok := ev.Terms[n]; ok && t.Sort == s {
			return t
		}
		return e.fresh(st, "ev."+n, s)
	}
	return App(SEvent, "mkEvent", get("key", SStr), get("value", SBytes), get("isDeletion", SBool), get("isJSON", SBool),
		get("xattrs", SBytes), get("cas", SInt), get("exp", SInt), get("revSeqNo", SInt))
}

func (env *rEnv) field(n *rNode) Value {
	base := env.eval(n.Args[0])
	f := n.Text
	e := env.e
	switch b := base.(type) {
	case VSym:
		switch b.T.Sort {
		case SRow:
			if rf, ok := rowFields[f]; ok {
				return sym(Acc(rf.sort, rf.acc, b.T))
			}
		case SEvent:
			if ef, ok := eventFields[f]; ok {
				return sym(Acc(ef.sort, ef.acc, b.T))
			}
		case SFeedEv:
			fe := map[string]*Sort{"opcode": SInt, "key": SBytes, "value": SBytes, "cas": SInt, "expiry": SInt, "datatype": SInt, "revno": SInt, "collid": SInt}
			if srt, ok := fe[f]; ok {
				return sym(Acc(srt, "fe."+f, b.T))
			}
			if f == "isnil" {
				return sym(Eq(b.T, mkT("FE_NIL", SFeedEv)))
			}
		case SDocId:
			if f == "coll" {
				return sym(App(SInt, "d.coll", b.T))
			}
			if f == "key" {
				return sym(App(SStr, "d.key", b.T))
			}
		}
	case VPtr:
		// navigate a Go struct through the heap of the selected state
		st := env.st()
		v := e.load(st, b)
		if s, ok := v.(VStruct); ok {
			if idx, ok := env.fieldIndex(n.Args[0], f, b); ok && idx < len(s.F) {
				return s.F[idx]
			}
		}
		return env.fail("no field %s in %s", f, nodeText(n.Args[0]))
	case VStruct:
		if idx, ok := env.fieldIndexOfType(env.typeOf(n.Args[0]), f); ok && idx < len(b.F) {
			return b.F[idx]
		}
	case VIface:
		// error shapes: CasMismatchErr{Expected, Actual}
		if s, ok := b.V.(VStruct); ok {
			if idx, ok := env.fieldIndexOfType(b.Typ, f); ok && idx < len(s.F) {
				return s.F[idx]
			}
		}
	}
	return env.fail("cannot select .%s on %s (%s)", f, nodeText(n.Args[0]), showValue(base))
}

func mustParseRSL(src string) *rNode {
	n, err := parseRSL(src)
	if err != nil {
		panic(err)
	}
	return n
}
