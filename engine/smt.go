package main

// SMT terms: strings with a sort, built through folding constructors.

import (
	"fmt"
	"math/big"
	"strings"
)

type Sort struct{ Name string }

var (
	SInt   = &Sort{"Int"}
	SBool  = &Sort{"Bool"}
	SStr   = &Sort{"Str"}
	SBytes = &Sort{"Bytes"}
	SJson  = &Sort{"JsonV"} // parsed JSON value / opaque Go value (abstract)
	SRow   = &Sort{"Row"}
	SDocId = &Sort{"DocId"}
	SDocs  = &Sort{"(Array DocId Row)"}
	SXMap  = &Sort{"(Array Str Bytes)"}  // xattr map: name -> raw (NOX = absent)
	SJMap  = &Sort{"(Array Str JsonV)"}  // map[string]any
	SSSet  = &Sort{"(Array Str Bool)"}   // set of strings
	SColls = &Sort{"(Array Int Int)"}    // collections.lastCas by id
	SEvent = &Sort{"Event"}
	SISet  = &Sort{"(Array Int Bool)"}
	SStrSeq = &Sort{"(Array Int Str)"}
)

type Term struct {
	S    string
	Sort *Sort
	Op   string // set for applications built through App
	Args []Term
}

func (t Term) String() string { return t.S }

var (
	TTrue  = mkT("true", SBool)
	TFalse = mkT("false", SBool)
)

func IntLit(n int64) Term {
	if n < 0 {
		return mkT(fmt.Sprintf("(- %d)", -n), SInt)
	}
	return mkT(fmt.Sprintf("%d", n), SInt)
}

func BigLit(n *big.Int) Term {
	if n.Sign() < 0 {
		return mkT("(- " + new(big.Int).Neg(n).String() + ")", SInt)
	}
	return mkT(n.String(), SInt)
}

func BoolLit(b bool) Term {
	if b {
		return TTrue
	}
	return TFalse
}

func (t Term) IsTrue() bool  { return t.S == "true" }
func (t Term) IsFalse() bool { return t.S == "false" }
func (t Term) IsConst() bool { return t.IsTrue() || t.IsFalse() }

// intConst returns the literal value if the term is an integer literal.
func (t Term) intConst() (*big.Int, bool) {
	s := t.S
	neg := false
	if strings.HasPrefix(s, "(- ") && strings.HasSuffix(s, ")") {
		s = s[3 : len(s)-1]
		neg = true
	}
	if s == "" {
		return nil, false
	}
	for _, c := range s {
		if c < '0' || c > '9' {
			return nil, false
		}
	}
	n, ok := new(big.Int).SetString(s, 10)
	if !ok {
		return nil, false
	}
	if neg {
		n.Neg(n)
	}
	return n, true
}

func App(sort *Sort, f string, args ...Term) Term {
	var sb strings.Builder
	sb.WriteByte('(')
	sb.WriteString(f)
	for _, a := range args {
		sb.WriteByte(' ')
		sb.WriteString(a.S)
	}
	sb.WriteByte(')')
	return Term{S: sb.String(), Sort: sort, Op: f, Args: args}
}

func Not(a Term) Term {
	if a.IsTrue() {
		return TFalse
	}
	if a.IsFalse() {
		return TTrue
	}
	if strings.HasPrefix(a.S, "(not ") {
		return mkT(a.S[5 : len(a.S)-1], SBool)
	}
	return App(SBool, "not", a)
}

func And(as ...Term) Term {
	var keep []Term
	for _, a := range as {
		if a.IsFalse() {
			return TFalse
		}
		if a.IsTrue() {
			continue
		}
		keep = append(keep, a)
	}
	if len(keep) == 0 {
		return TTrue
	}
	if len(keep) == 1 {
		return keep[0]
	}
	return App(SBool, "and", keep...)
}

func Or(as ...Term) Term {
	var keep []Term
	for _, a := range as {
		if a.IsTrue() {
			return TTrue
		}
		if a.IsFalse() {
			continue
		}
		keep = append(keep, a)
	}
	if len(keep) == 0 {
		return TFalse
	}
	if len(keep) == 1 {
		return keep[0]
	}
	return App(SBool, "or", keep...)
}

func Implies(a, b Term) Term {
	if a.IsTrue() {
		return b
	}
	if a.IsFalse() || b.IsTrue() {
		return TTrue
	}
	return App(SBool, "=>", a, b)
}

func Eq(a, b Term) Term {
	if a.S == b.S {
		return TTrue
	}
	if a.Sort == SInt {
		if x, ok := a.intConst(); ok {
			if y, ok := b.intConst(); ok {
				return BoolLit(x.Cmp(y) == 0)
			}
		}
	}
	if a.Sort == SBool {
		if a.IsTrue() {
			return b
		}
		if b.IsTrue() {
			return a
		}
		if a.IsFalse() {
			return Not(b)
		}
		if b.IsFalse() {
			return Not(a)
		}
	}
	if a.Sort == SStr && strings.HasPrefix(a.S, "str!") && strings.HasPrefix(b.S, "str!") {
		return TFalse // distinct string literals
	}
	return App(SBool, "=", a, b)
}

func Ite(c, a, b Term) Term {
	if c.IsTrue() {
		return a
	}
	if c.IsFalse() {
		return b
	}
	if a.S == b.S {
		return a
	}
	if a.Sort == SBool {
		if a.IsTrue() && b.IsFalse() {
			return c
		}
		if a.IsFalse() && b.IsTrue() {
			return Not(c)
		}
	}
	return App(a.Sort, "ite", c, a, b)
}

func arith(op string, a, b Term) Term {
	x, okx := a.intConst()
	y, oky := b.intConst()
	if okx && oky {
		r := new(big.Int)
		switch op {
		case "+":
			return BigLit(r.Add(x, y))
		case "-":
			return BigLit(r.Sub(x, y))
		case "*":
			return BigLit(r.Mul(x, y))
		}
	}
	if op == "+" {
		if okx && x.Sign() == 0 {
			return b
		}
		if oky && y.Sign() == 0 {
			return a
		}
	}
	if op == "-" && oky && y.Sign() == 0 {
		return a
	}
	return App(SInt, op, a, b)
}

func Add(a, b Term) Term { return arith("+", a, b) }
func Sub(a, b Term) Term { return arith("-", a, b) }
func Mul(a, b Term) Term { return arith("*", a, b) }

func cmp(op string, a, b Term) Term {
	x, okx := a.intConst()
	y, oky := b.intConst()
	if okx && oky {
		c := x.Cmp(y)
		switch op {
		case "<":
			return BoolLit(c < 0)
		case "<=":
			return BoolLit(c <= 0)
		case ">":
			return BoolLit(c > 0)
		case ">=":
			return BoolLit(c >= 0)
		}
	}
	return App(SBool, op, a, b)
}

func Lt(a, b Term) Term { return cmp("<", a, b) }
func Le(a, b Term) Term { return cmp("<=", a, b) }
func Gt(a, b Term) Term { return cmp(">", a, b) }
func Ge(a, b Term) Term { return cmp(">=", a, b) }

func Select(arr, idx Term, elem *Sort) Term {
	if arr.Op == "store" && len(arr.Args) == 3 && arr.Args[1].S == idx.S {
		return arr.Args[2]
	}
	return App(elem, "select", arr, idx)
}

var rowAccIndex = map[string]int{"r.present": 0, "r.rowid": 1, "r.value": 2, "r.cas": 3, "r.exp": 4, "r.xattrs": 5,
	"r.isJSON": 6, "r.tombstone": 7, "r.rev": 8,
	"e.key": 0, "e.value": 1, "e.isDeletion": 2, "e.isJSON": 3, "e.xattrs": 4, "e.cas": 5, "e.exp": 6, "e.rev": 7,
	"d.coll": 0, "d.key": 1,
	"fe.opcode": 0, "fe.key": 1, "fe.value": 2, "fe.cas": 3, "fe.expiry": 4, "fe.datatype": 5, "fe.revno": 6, "fe.collid": 7}

// Acc applies a datatype accessor, folding it over constructors and if-then-else.
func Acc(sort *Sort, acc string, x Term) Term {
	if i, ok := rowAccIndex[acc]; ok {
		if (x.Op == "mkRow" || x.Op == "mkEvent" || x.Op == "mkId" || x.Op == "mkFE") && i < len(x.Args) {
			return x.Args[i]
		}
		if x.Op == "ite" && len(x.Args) == 3 {
			return Ite(x.Args[0], Acc(sort, acc, x.Args[1]), Acc(sort, acc, x.Args[2]))
		}
	}
	return App(sort, acc, x)
}
func Store(arr, idx, v Term) Term           { return App(arr.Sort, "store", arr, idx, v) }

// ---------------------------------------------------------------------------
// SMT prelude shared by all obligations.

const smtPrelude = `(set-option :produce-models true)
(set-logic ALL)
(declare-sort Str 0)
(declare-sort Bytes 0)
(declare-sort JsonV 0)
(declare-const NULLB Bytes)
(define-fun b.isnil ((b Bytes)) Bool (= b NULLB))
(declare-fun b.len (Bytes) Int)
(assert (= (b.len NULLB) 0))
(declare-fun s.len (Str) Int)
(declare-fun s.at (Str Int) Int)
(declare-fun b.at (Bytes Int) Int)
(define-fun s.sys ((s Str)) Bool (and (> (s.len s) 0) (= (s.at s 0) 95))) ; system xattr name: starts with '_'
(declare-fun s.concat (Str Str) Str)
(declare-fun s.badxattrkey (Str) Bool) ; contains one of $ . [ ]
(declare-fun b.concat (Bytes Bytes) Bytes)
(declare-fun b.ofstr (Str) Bytes)
(declare-fun s.ofbytes (Bytes) Str)
(declare-fun s.ofint (Int) Str)
(declare-fun s.toint (Str) Int)
(declare-fun b.looksjson (Bytes) Bool)
(declare-datatypes ((Row 0)) (((mkRow (r.present Bool) (r.rowid Int) (r.value Bytes) (r.cas Int) (r.exp Int)
   (r.xattrs Bytes) (r.isJSON Int) (r.tombstone Int) (r.rev Int)))))
(declare-datatypes ((DocId 0)) (((mkId (d.coll Int) (d.key Str)))))
(declare-datatypes ((Event 0)) (((mkEvent (e.key Str) (e.value Bytes) (e.isDeletion Bool) (e.isJSON Bool)
   (e.xattrs Bytes) (e.cas Int) (e.exp Int) (e.rev Int)))))
(declare-const NOX Bytes) ; "no such xattr" marker in xattr maps
(assert (not (= NOX NULLB)))
(declare-fun j.parse (Bytes) JsonV)
(declare-fun j.marshal (JsonV) Bytes)
(declare-fun j.ok (Bytes) Bool)
(declare-const JNULL JsonV)
(declare-fun xmap (Bytes) (Array Str Bytes))
(declare-fun xmapnil (Bytes) Bool)
(declare-fun xok (Bytes) Bool)
(declare-fun xmarshal ((Array Str Bytes) Bool) Bytes)
(assert (= (xmap NULLB) ((as const (Array Str Bytes)) NOX)))
(declare-fun m.len.b ((Array Str Bytes)) Int)
(assert (= (m.len.b ((as const (Array Str Bytes)) NOX)) 0))
(define-fun absexp ((e Int) (n Int)) Int (ite (and (> e 0) (<= e 2592000)) (+ e n) e))
`

// smtDecl renders a declaration for a fresh constant.
func smtDecl(name string, sort *Sort) string {
	return fmt.Sprintf("(declare-const %s %s)", name, sort.Name)
}

func mkT(s string, sort *Sort) Term { return Term{S: s, Sort: sort} }

// canonSort maps a sort name back to the shared *Sort (sorts are compared by pointer).
func canonSort(name string) *Sort {
	for _, s := range []*Sort{SInt, SBool, SStr, SBytes, SJson, SRow, SDocId, SDocs, SXMap, SJMap, SSSet, SColls, SEvent, SISet, SStrSeq} {
		if s.Name == name {
			return s
		}
	}
	return &Sort{name}
}
