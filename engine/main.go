package main

import (
	"runtime/debug"
	"crypto/sha256"
	"encoding/hex"
	"flag"
	"fmt"
	"os"
	"runtime"
	"runtime/pprof"
	"strings"
	"time"

	"golang.org/x/tools/go/packages"
	"golang.org/x/tools/go/ssa"
	"golang.org/x/tools/go/ssa/ssautil"
)

func ssautilAll(prog *ssa.Program) map[*ssa.Function]bool { return ssautil.AllFunctions(prog) }

func fingerprint(fn *ssa.Function) string {
	var sb strings.Builder
	fn.WriteTo(&sb)
	h := sha256.Sum256([]byte(sb.String()))
	return hex.EncodeToString(h[:8])
}

func loadEngine(repo string) (*Engine, error) {
	cfg := &packages.Config{Mode: packages.LoadAllSyntax, Dir: repo, BuildFlags: []string{"-tags=verif"},
		Env: append(os.Environ(), "GOFLAGS=-mod=mod", "GOPROXY=off", "GOSUMDB=off", "GOTOOLCHAIN=local")}
	pkgs, err := packages.Load(cfg, ".")
	if err != nil {
		return nil, err
	}
	if packages.PrintErrors(pkgs) > 0 {
		return nil, fmt.Errorf("package %s does not build", repo)
	}
	prog, spkgs := ssautil.AllPackages(pkgs, ssa.InstantiateGenerics)
	prog.Build()
	e := &Engine{prog: prog, pkg: spkgs[0], strLits: map[string]string{}, globals: map[*ssa.Global]int{},
		sentinel: map[string]Value{}, unmodelled: map[string]int{}, maxPaths: 60000, loopBound: 3,
		cellNames: map[int]string{}, lazyCells: map[string]int{}, byteLits: map[int64]bool{}, ufStrs: map[string]string{}, ufPreds: map[string]bool{}, sqlTexts: map[string]bool{},
		dbErrors: true, workers: runtime.NumCPU(), sessionTimeout: 20 * time.Second, goalTimeout: 8 * time.Second}
	e.log = func(format string, args ...interface{}) { fmt.Fprintf(os.Stderr, format+"\n", args...) }
	schema, err := os.ReadFile(repo + "/schema.sql")
	if err != nil {
		return nil, err
	}
	e.schemaText = string(schema)
	if e.docSchema, err = parseSchemaTable(string(schema), "documents"); err != nil {
		return nil, err
	}
	return e, nil
}

func main() {
	// thousands of path states are alive at once while a large function is verified: trade some CPU for a smaller heap
	debug.SetGCPercent(50)
	if pf := os.Getenv("ROSVC_PROF"); pf != "" {
		f, _ := os.Create(pf)
		pprof.StartCPUProfile(f)
		defer pprof.StopCPUProfile()
		go func() {
			time.Sleep(90 * time.Second)
			pprof.StopCPUProfile()
			f.Close()
			os.Exit(3)
		}()
	}
	if mp := os.Getenv("ROSVC_MEMPROF"); mp != "" {
		go func() {
			time.Sleep(time.Duration(atoiEnv("ROSVC_MEMPROF_AT", 70)) * time.Second)
			f, _ := os.Create(mp)
			pprof.WriteHeapProfile(f)
			f.Close()
		}()
	}
	if len(os.Args) < 2 {
		fmt.Fprintln(os.Stderr, "usage: rosvc check|fn|replay ...")
		os.Exit(2)
	}
	switch os.Args[1] {
	case "fn":
		fs := flag.NewFlagSet("fn", flag.ExitOnError)
		repo := fs.String("repo", "/repo", "repository")
		name := fs.String("name", "", "function under contract (short or full name)")
		prop := fs.String("property", "", "property filter")
		verbose := fs.Bool("v", false, "verbose")
		fs.Parse(os.Args[2:])
		os.Exit(cmdFn(*repo, *name, *prop, *verbose))
	case "check":
		fs := flag.NewFlagSet("check", flag.ExitOnError)
		repo := fs.String("repo", "/repo", "repository")
		prop := fs.String("property", "", "property id")
		tier := fs.String("tier", "quick", "quick|thorough")
		fs.Parse(os.Args[2:])
		os.Exit(cmdCheck(*repo, *prop, *tier))
	case "replay":
		fs := flag.NewFlagSet("replay", flag.ExitOnError)
		repo := fs.String("repo", "/repo", "repository")
		fs.Parse(os.Args[2:])
		if fs.NArg() != 1 {
			fmt.Fprintln(os.Stderr, "usage: rosvc replay [-repo dir] <replay-file>")
			os.Exit(2)
		}
		os.Exit(cmdReplay(*repo, fs.Arg(0)))
	default:
		fmt.Fprintln(os.Stderr, "unknown command", os.Args[1])
		os.Exit(2)
	}
}

func cmdFn(repo, name, prop string, verbose bool) int {
	t0 := time.Now()
	e, err := loadEngine(repo)
	if err != nil {
		fmt.Println("BROKEN load:", err)
		return 2
	}
	fmt.Fprintf(os.Stderr, "loaded in %.1fs\n", time.Since(t0).Seconds())
	cs, err := loadContracts(repo + "/verif_contracts.go")
	if err != nil {
		fmt.Println("BROKEN contracts:", err)
		return 2
	}
	e.contracts = cs
	e.known = &KnownFile{}
	e.solver, err = newSolver()
	if err != nil {
		fmt.Println("BROKEN solver:", err)
		return 2
	}
	defer e.solver.cleanup()
	rc := 0
	for _, fnn := range cs.order {
		ct := cs.fns[fnn]
		if name != "" && ct.Short != name && ct.Fn != name && !strings.HasSuffix(ct.Fn, name) && !strings.HasSuffix(ct.Short, "."+name) {
			continue
		}
		r := e.verifyFunction(ct, prop, "quick")
		debug.FreeOSMemory() // thousands of path states per large function: give the memory back before the next one
		fmt.Printf("== %s: %d paths %v in %.1fs (fork checks %d)\n", ct.Fn, r.Paths, r.ByKind, r.Seconds, e.forkChecks)
		for _, n := range r.Notes {
			fmt.Println("   note:", n)
		}
		for k, v := range r.Unmodel {
			fmt.Printf("   unmodelled external: %s x%d\n", k, v)
		}
		for _, o := range r.Obls {
			fmt.Printf("   %-12s %-40s paths=%d trivial=%d %s %.2fs %s\n", o.Status, o.ID, o.Paths, o.Trivial, o.Solver, o.Seconds, truncate(o.Detail, 200))
			if o.Status != "discharged" {
				rc = 1
				if verbose {
					os.MkdirAll("/tmp/rosvc-fail", 0755)
					os.WriteFile("/tmp/rosvc-fail/"+sanitize(o.ID)+".smt2", []byte(o.FailSMT), 0644)
					fmt.Println("      clause:", o.Clause)
					fmt.Println("      model:", truncate(o.Model, 3000))
					fmt.Println("      path:\n" + o.FailPath)
				}
			}
		}
	}
	return rc
}

func atoiEnv(name string, def int) int {
	if v := os.Getenv(name); v != "" {
		var n int
		if _, err := fmt.Sscanf(v, "%d", &n); err == nil {
			return n
		}
	}
	return def
}
