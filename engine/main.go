package main

import (
	"encoding/json"
	"path/filepath"
	"sort"
	"runtime/debug"
	"crypto/sha256"
	"encoding/hex"
	"flag"
	"fmt"
	"os"
	"runtime"
	"runtime/pprof"
	"strings"
	"time"

	"golang.org/x/tools/go/packages"
	"golang.org/x/tools/go/ssa"
	"golang.org/x/tools/go/ssa/ssautil"
)

func ssautilAll(prog *ssa.Program) map[*ssa.Function]bool { return ssautil.AllFunctions(prog) }

func fingerprint(fn *ssa.Function) string {
	var sb strings.Builder
	fn.WriteTo(&sb)
	h := sha256.Sum256([]byte(sb.String()))
	return hex.EncodeToString(h[:8])
}

func loadEngine(repo string) (*Engine, error) {
	cfg := &packages.Config{Mode: packages.LoadAllSyntax, Dir: repo, BuildFlags: []string{"-tags=verif"},
		Env: append(os.Environ(), "GOFLAGS=-mod=mod", "GOPROXY=off", "GOSUMDB=off", "GOTOOLCHAIN=local")}
	pkgs, err := packages.Load(cfg, ".")
	if err != nil {
		return nil, err
	}
	if packages.PrintErrors(pkgs) > 0 {
		return nil, fmt.Errorf("package %s does not build", repo)
	}
	prog, spkgs := ssautil.AllPackages(pkgs, ssa.InstantiateGenerics)
	prog.Build()
	e := &Engine{prog: prog, pkg: spkgs[0], strLits: map[string]string{}, globals: map[*ssa.Global]int{},
		sentinel: map[string]Value{}, unmodelled: map[string]int{}, maxPaths: 60000, loopBound: 3,
		cellNames: map[int]string{}, lazyCells: map[string]int{}, byteLits: map[int64]bool{}, ufStrs: map[string]string{}, ufPreds: map[string]bool{}, sqlTexts: map[string]bool{},
		dbErrors: true, workers: runtime.NumCPU(), sessionTimeout: 20 * time.Second, goalTimeout: 8 * time.Second}
	e.log = func(format string, args ...interface{}) { fmt.Fprintf(os.Stderr, format+"\n", args...) }
	schema, err := os.ReadFile(repo + "/schema.sql")
	if err != nil {
		return nil, err
	}
	e.schemaText = string(schema)
	if e.docSchema, err = parseSchemaTable(string(schema), "documents"); err != nil {
		return nil, err
	}
	return e, nil
}

func main() {
	// thousands of path states are alive at once while a large function is verified: trade some CPU for a smaller heap
	debug.SetGCPercent(50)
	if pf := os.Getenv("ROSVC_PROF"); pf != "" {
		f, _ := os.Create(pf)
		pprof.StartCPUProfile(f)
		defer pprof.StopCPUProfile()
		go func() {
			time.Sleep(90 * time.Second)
			pprof.StopCPUProfile()
			f.Close()
			os.Exit(3)
		}()
	}
	if mp := os.Getenv("ROSVC_MEMPROF"); mp != "" {
		go func() {
			time.Sleep(time.Duration(atoiEnv("ROSVC_MEMPROF_AT", 70)) * time.Second)
			f, _ := os.Create(mp)
			pprof.WriteHeapProfile(f)
			f.Close()
		}()
	}
	if len(os.Args) < 2 {
		fmt.Fprintln(os.Stderr, "usage: rosvc check|fn|replay ...")
		os.Exit(2)
	}
	switch os.Args[1] {
	case "fn":
		fs := flag.NewFlagSet("fn", flag.ExitOnError)
		repo := fs.String("repo", "/repo", "repository")
		name := fs.String("name", "", "function under contract (short or full name)")
		only := fs.String("only", "", "comma-separated full names of the functions under contract to verify")
		prop := fs.String("property", "", "property filter")
		verbose := fs.Bool("v", false, "verbose")
		fs.Parse(os.Args[2:])
		onlySet = map[string]bool{}
		for _, n := range strings.Split(*only, ",") {
			if n != "" {
				onlySet[n] = true
			}
		}
		os.Exit(cmdFn(*repo, *name, *prop, *verbose))
	case "check":
		fs := flag.NewFlagSet("check", flag.ExitOnError)
		repo := fs.String("repo", "/repo", "repository")
		prop := fs.String("property", "", "property id")
		tier := fs.String("tier", "quick", "quick|thorough")
		fs.Parse(os.Args[2:])
		os.Exit(cmdCheck(*repo, *prop, *tier))
	case "affected":
		// affected -repo W -base B: the functions under contract whose verification can be influenced by the difference
		// between the two trees (their own code, or any function of the package they can reach, changed)
		fs := flag.NewFlagSet("affected", flag.ExitOnError)
		repo := fs.String("repo", "/repo", "tree under check")
		base := fs.String("base", "", "reference tree")
		fs.Parse(os.Args[2:])
		os.Exit(cmdAffected(*repo, *base))
	case "fingerprints":
		// fingerprints -repo R: body fingerprints of the functions under contract (committed as /verif/fingerprints.json;
		// used to find a function under contract again after it was renamed)
		fs := flag.NewFlagSet("fingerprints", flag.ExitOnError)
		repo := fs.String("repo", "/repo", "tree")
		fs.Parse(os.Args[2:])
		os.Exit(cmdFingerprints(*repo))
	case "replay":
		fs := flag.NewFlagSet("replay", flag.ExitOnError)
		repo := fs.String("repo", "/repo", "repository")
		fs.Parse(os.Args[2:])
		if fs.NArg() != 1 {
			fmt.Fprintln(os.Stderr, "usage: rosvc replay [-repo dir] <replay-file>")
			os.Exit(2)
		}
		os.Exit(cmdReplay(*repo, fs.Arg(0)))
	default:
		fmt.Fprintln(os.Stderr, "unknown command", os.Args[1])
		os.Exit(2)
	}
}

func cmdFn(repo, name, prop string, verbose bool) int {
	t0 := time.Now()
	e, err := loadEngine(repo)
	if err != nil {
		fmt.Println("BROKEN load:", err)
		return 2
	}
	fmt.Fprintf(os.Stderr, "loaded in %.1fs\n", time.Since(t0).Seconds())
	cs, err := loadContracts(repo + "/verif_contracts.go")
	if err != nil {
		fmt.Println("BROKEN contracts:", err)
		return 2
	}
	e.contracts = cs
	e.resolveRenamed()
	e.known = &KnownFile{}
	e.solver, err = newSolver()
	if err != nil {
		fmt.Println("BROKEN solver:", err)
		return 2
	}
	defer e.solver.cleanup()
	rc := 0
	for _, fnn := range cs.order {
		ct := cs.fns[fnn]
		if name != "" && ct.Short != name && ct.Fn != name && !strings.HasSuffix(ct.Fn, name) && !strings.HasSuffix(ct.Short, "."+name) {
			continue
		}
		if len(onlySet) > 0 && onlySet[ct.Fn] {
			onlySeen[ct.Fn] = true
		}
		if len(onlySet) > 0 && !onlySet[ct.Fn] {
			continue
		}
		r := e.verifyFunction(ct, prop, "quick")
		debug.FreeOSMemory() // thousands of path states per large function: give the memory back before the next one
		fmt.Printf("== %s: %d paths %v in %.1fs (fork checks %d)\n", ct.Fn, r.Paths, r.ByKind, r.Seconds, e.forkChecks)
		for _, n := range r.Notes {
			fmt.Println("   note:", n)
		}
		for k, v := range r.Unmodel {
			fmt.Printf("   unmodelled external: %s x%d\n", k, v)
		}
		for _, o := range r.Obls {
			fmt.Printf("   %-12s %-40s paths=%d trivial=%d %s %.2fs %s\n", o.Status, o.ID, o.Paths, o.Trivial, o.Solver, o.Seconds, truncate(o.Detail, 200))
			if o.Status != "discharged" {
				rc = 1
				if verbose {
					os.MkdirAll("/tmp/rosvc-fail", 0755)
					os.WriteFile("/tmp/rosvc-fail/"+sanitize(o.ID)+".smt2", []byte(o.FailSMT), 0644)
					fmt.Println("      clause:", o.Clause)
					fmt.Println("      model:", truncate(o.Model, 3000))
					fmt.Println("      path:\n" + o.FailPath)
				}
			}
		}
	}
	if len(onlySet) > 0 {
		for n := range onlySet {
			if !onlySeen[n] {
				fmt.Println("BROKEN -only names no function under contract:", n)
				return 2
			}
		}
	}
	fmt.Println("SWEEP-DONE") // scripts treat a sweep without this line (killed, crashed) as incomplete, never as quiet
	return rc
}

func atoiEnv(name string, def int) int {
	if v := os.Getenv(name); v != "" {
		var n int
		if _, err := fmt.Sscanf(v, "%d", &n); err == nil {
			return n
		}
	}
	return def
}

var onlySet map[string]bool
var onlySeen = map[string]bool{}

// normFingerprint: the SSA text of a function without positions (a moved but unchanged function is unchanged)
func normFingerprint(fn *ssa.Function) string {
	var sb strings.Builder
	fn.WriteTo(&sb)
	var keep []string
	for _, l := range strings.Split(sb.String(), "\n") {
		if strings.HasPrefix(l, "#") {
			continue
		}
		keep = append(keep, l)
	}
	h := sha256.Sum256([]byte(strings.Join(keep, "\n")))
	return hex.EncodeToString(h[:8])
}

func packageFunctions(e *Engine) map[string]*ssa.Function {
	out := map[string]*ssa.Function{}
	for fn := range ssautilAll(e.prog) {
		if rootPkg(fn) == e.pkg {
			out[fn.String()] = fn
		}
	}
	return out
}

func cmdAffected(repo, base string) int {
	if base == "" {
		fmt.Println("AFFECTED ALL")
		return 0
	}
	same := func(f string) bool {
		a, e1 := os.ReadFile(filepath.Join(repo, f))
		b, e2 := os.ReadFile(filepath.Join(base, f))
		return e1 == nil && e2 == nil && string(a) == string(b)
	}
	if !same("schema.sql") || !same("verif_contracts.go") || !same("go.mod") {
		fmt.Println("AFFECTED ALL")
		return 0
	}
	e1, err := loadEngine(repo)
	if err != nil {
		fmt.Println("AFFECTED ALL")
		return 0
	}
	e2, err := loadEngine(base)
	if err != nil {
		fmt.Println("AFFECTED ALL")
		return 0
	}
	f1, f2 := packageFunctions(e1), packageFunctions(e2)
	changed := map[string]bool{}
	for n, fn := range f1 {
		if g, ok := f2[n]; !ok || normFingerprint(fn) != normFingerprint(g) {
			changed[n] = true
		}
	}
	for n := range f2 {
		if _, ok := f1[n]; !ok {
			changed[n] = true
		}
	}
	// package-local references of each function (calls, closures, function values)
	refs := map[string][]string{}
	for n, fn := range f1 {
		seen := map[string]bool{}
		for _, b := range fn.Blocks {
			for _, in := range b.Instrs {
				for _, op := range in.Operands(nil) {
					if op == nil || *op == nil {
						continue
					}
					if g, ok := (*op).(*ssa.Function); ok && rootPkg(g) == e1.pkg && !seen[g.String()] {
						seen[g.String()] = true
						refs[n] = append(refs[n], g.String())
					}
				}
				// interface method calls may reach any method of that name in the package
				if c, ok := in.(ssa.CallInstruction); ok && c.Common().IsInvoke() {
					m := c.Common().Method.Name()
					for gn, g := range f1 {
						if g.Signature.Recv() != nil && g.Name() == m && !seen[gn] {
							seen[gn] = true
							refs[n] = append(refs[n], gn)
						}
					}
				}
			}
		}
		for _, an := range fn.AnonFuncs {
			if !seen[an.String()] {
				refs[n] = append(refs[n], an.String())
			}
		}
	}
	cs, err := loadContracts(filepath.Join(repo, "verif_contracts.go"))
	if err != nil {
		fmt.Println("AFFECTED ALL")
		return 0
	}
	e1.contracts = cs
	var out []string
	for _, fnn := range cs.order {
		fn := e1.findFunction(fnn)
		if fn == nil {
			out = append(out, fnn)
			continue
		}
		hit := false
		visited := map[string]bool{}
		stack := []string{fn.String()}
		for len(stack) > 0 && !hit {
			n := stack[len(stack)-1]
			stack = stack[:len(stack)-1]
			if visited[n] {
				continue
			}
			visited[n] = true
			if changed[n] {
				hit = true
				break
			}
			for _, callee := range refs[n] {
				// a callee that is used through its contract while this function is verified does not contribute its
				// body (its own contract covers that), unless its contract is only trusted
				if g, ok := f1[callee]; ok && callee != fn.String() {
					if cct := cs.lookup(fnName(g)); cct != nil && cct.Modular && cct.Flags["trusted"] == "" {
						e1.curFn = fnn
						if e1.modularHere(cct) {
							continue
						}
					}
				}
				stack = append(stack, callee)
			}
		}
		if hit {
			out = append(out, fnn)
		}
	}
	var ch []string
	for n := range changed {
		ch = append(ch, n)
	}
	sort.Strings(ch)
	fmt.Fprintf(os.Stderr, "changed functions: %s\n", strings.Join(ch, " "))
	if len(out) == 0 {
		fmt.Println("AFFECTED NONE")
		return 0
	}
	fmt.Println("AFFECTED " + strings.Join(out, ","))
	return 0
}

// bodyFingerprint: the SSA text of a function without positions and without its header (so that it survives a rename)
func bodyFingerprint(fn *ssa.Function) string {
	var sb strings.Builder
	fn.WriteTo(&sb)
	for _, an := range fn.AnonFuncs {
		an.WriteTo(&sb)
	}
	var keep []string
	for _, l := range strings.Split(sb.String(), "\n") {
		if strings.HasPrefix(l, "#") || strings.HasPrefix(l, "func ") {
			continue
		}
		keep = append(keep, l)
	}
	text := strings.Join(keep, "\n")
	// its own name (closures are named after it, recursion mentions it) is not part of its identity
	text = strings.ReplaceAll(text, fn.String(), "SELF")
	text = strings.ReplaceAll(text, fn.Name()+"$", "SELF$")
	h := sha256.Sum256([]byte(text))
	return hex.EncodeToString(h[:10])
}

func cmdFingerprints(repo string) int {
	e, err := loadEngine(repo)
	if err != nil {
		fmt.Fprintln(os.Stderr, err)
		return 2
	}
	cs, err := loadContracts(filepath.Join(repo, "verif_contracts.go"))
	if err != nil {
		fmt.Fprintln(os.Stderr, err)
		return 2
	}
	e.contracts = cs
	out := map[string]string{}
	for _, fnn := range cs.order {
		if fn := e.findFunction(fnn); fn != nil && len(fn.Blocks) >= 1 {
			out[fnn] = bodyFingerprint(fn)
			var names []string
			for i := 0; i < fn.Signature.Results().Len(); i++ {
				names = append(names, fn.Signature.Results().At(i).Name())
			}
			out["results:"+fnn] = strings.Join(names, ",")
		}
	}
	data, _ := json.MarshalIndent(out, "", " ")
	fmt.Println(string(data))
	return 0
}

// resolveRenamed: a function under contract that no longer exists under its name is looked for by the fingerprint of its
// body (recorded in /verif/fingerprints.json on the verified tree). A unique match is taken to be the same function
// under a new name: its contract, and the contracts that mention it, keep working.
func (e *Engine) resolveRenamed() {
	data, err := os.ReadFile(filepath.Join(verifRoot, "fingerprints.json"))
	if err != nil {
		return
	}
	known := map[string]string{}
	if json.Unmarshal(data, &known) != nil {
		return
	}
	e.resultNames = map[string][]string{}
	for k, v := range known {
		if strings.HasPrefix(k, "results:") {
			e.resultNames[k[8:]] = strings.Split(v, ",")
		}
	}
	var byFP map[string][]*ssa.Function
	for _, fnn := range e.contracts.order {
		if e.findFunction(fnn) != nil {
			continue
		}
		fp, ok := known[fnn]
		if !ok {
			continue
		}
		if byFP == nil {
			byFP = map[string][]*ssa.Function{}
			for fn := range e.allFns {
				if rootPkg(fn) == e.pkg && fn.Parent() == nil && len(fn.Blocks) >= 1 {
					byFP[bodyFingerprint(fn)] = append(byFP[bodyFingerprint(fn)], fn)
				}
			}
		}
		if c := byFP[fp]; len(c) == 1 && e.contracts.lookup(fnName(c[0])) == nil {
			e.fnCache[fnn] = c[0]
			e.contracts.fns[fnName(c[0])] = e.contracts.fns[fnn]
			fmt.Fprintf(os.Stderr, "note: %s is found again as %s (same body)\n", fnn, fnName(c[0]))
		}
	}
}
