package main

// Per-function verification: symbolic execution of the SSA under the contract, obligation generation, discharge.

import (
	"fmt"
	"os"
	"sync"
	"go/types"
	"sort"
	"strings"
	"time"

	"golang.org/x/tools/go/ssa"
)

type exitPath struct {
	st     *State
	ret    Value
	kind   string // return panic incomplete deadlock
	detail string
}

// Obligation is one (function, clause) pair; it is discharged when every path VC is discharged.
type Obligation struct {
	ID        string
	Fn        string
	Props     []string
	Kind      string // ensures nopanic complete nodeadlock mustfail cover invariant requires-at-call nowrap
	Clause    string
	Pos       string
	Paths     int
	Trivial   int // path VCs whose goal folded to true
	Status    string // discharged refuted undischarged broken
	Solver    string
	Seconds   float64
	Model     string
	FailPath  string
	FailSMT   string
	Detail    string
	Variant   string
	Bounded   string // non-empty: the function was checked under this stated bound (not counted as proved)
	OutsideRegion string // for known findings: status of the clause outside the listed region
	Replayed  bool
	ReplayObs string
	ReplayTests []map[string]string
}

type pathGoal struct {
	obl   *Obligation
	goal  Term
	pathI int
}

type fnResult struct {
	Fn       string
	Paths    int
	ByKind   map[string]int
	Obls     []*Obligation
	Notes    []string
	Seconds  float64
	Finger   string
	Unmodel  map[string]int
}

func (e *Engine) findFunction(name string) *ssa.Function {
	if e.fnCache == nil {
		e.fnCache = map[string]*ssa.Function{}
		e.allFns = ssautilAll(e.prog)
	}
	if fn, ok := e.fnCache[name]; ok {
		return fn
	}
	fn := e.findFunctionSlow(name)
	e.fnCache[name] = fn
	return fn
}

func (e *Engine) findFunctionSlow(name string) *ssa.Function {
	var best *ssa.Function
	for fn := range e.allFns {
		if rootPkg(fn) != e.pkg {
			continue
		}
		if fnName(fn) == name {
			// prefer an instantiation of a generic function over its uninstantiated origin
			if best == nil || (len(fn.TypeArgs()) > 0 && len(best.TypeArgs()) == 0) ||
				(len(fn.TypeArgs()) > 0 && fn.String() < best.String()) {
				best = fn
			}
		}
	}
	return best
}

func (e *Engine) findByShort(short string) *ssa.Function {
	for _, name := range e.contracts.order {
		if e.contracts.fns[name].Short == short {
			return e.findFunction(name)
		}
	}
	return nil
}

// initialState builds the symbolic entry state.
func (e *Engine) initialState() *State {
	st := &State{heap: map[int]Value{}, declSet: map[string]bool{}, visits: map[string]int{}}
	st.g.Docs = st.declare("docs0", SDocs)
	st.g.BucketLastCas = st.declare("bucketLastCas0", SInt)
	st.g.CollLastCas = st.declare("collLastCas0", SColls)
	st.g.Vers = map[string]Term{}
	for _, t := range []string{"collections", "designdocs", "views", "mapped", "bucket.name"} {
		st.g.Vers[t] = st.declare("vers0."+t, SInt)
	}
	st.assume(And(Ge(st.g.BucketLastCas, IntLit(0))))
	// the declared database invariant holds in every reachable state (T1): assumed at entry for every row
	e.assumeDBInv(st)
	return st
}

// paramVariants enumerates nil / non-nil shapes for nullable pointer parameters.
func (e *Engine) paramShapes(fn *ssa.Function, ct *Contract) [][]string {
	shapes := [][]string{nil}
	for _, p := range fn.Params {
		var opts []string
		t := p.Type()
		switch u := t.Underlying().(type) {
		case *types.Pointer:
			_, isStruct := u.Elem().Underlying().(*types.Struct)
			inPkg := false
			if n, ok := u.Elem().(*types.Named); ok && n.Obj().Pkg() != nil && n.Obj().Pkg().Path() == rosmarPkg {
				inPkg = true
			}
			if ct.Nullable[p.Name()] || !isStruct || !inPkg {
				if _, isAbs := e.abstractHandleProbe(t); !isAbs {
					opts = []string{"nonnil", "nil"}
				}
			}
		case *types.Interface:
			if ct.Nullable[p.Name()] {
				opts = []string{"nonnil", "nil"}
			}
		}
		if opts == nil {
			opts = []string{""}
		}
		var next [][]string
		for _, s := range shapes {
			for _, o := range opts {
				next = append(next, append(append([]string{}, s...), o))
			}
		}
		shapes = next
	}
	return shapes
}

func (e *Engine) abstractHandleProbe(t types.Type) (Value, bool) {
	switch {
	case typeIsPkg(t, "database/sql", "Tx"), typeIsPkg(t, "database/sql", "DB"), typeIsPkg(t, "sync", "Mutex"),
		typeIsPkg(t, "time", "Timer"), typeIsPkg(t, "container/list", "List"), typeIsPkg(t, "sync", "Cond"):
		return nil, true
	}
	return nil, false
}

// anyParam builds the value of an interface-typed parameter according to a variant directive.
func (e *Engine) shapedParam(st *State, p *ssa.Parameter, shape string) Value {
	t := p.Type()
	name := p.Name()
	switch shape {
	case "nil":
		return VNil{}
	case "bytes":
		b := st.declare("in."+name+".bytes", SBytes)
		return VIface{Typ: types.NewSlice(types.Typ[types.Byte]), V: sym(b)}
	case "json":
		j := st.declare("in."+name+".json", SJson)
		st.assume(Not(Eq(j, mkT("JNULL", SJson))))
		return VIface{Typ: nil, V: VAbs{Kind: "json", ID: e.nextID(), Data: j}}
	case "tx":
		return VIface{V: VAbs{Kind: "tx", ID: e.nextID(), Data: name}}
	case "pool":
		return VIface{V: VAbs{Kind: "pool", ID: e.nextID(), Data: name}}
	case "closed":
		if tn := e.pkg.Type("closedDB"); tn != nil {
			return VIface{Typ: tn.Type(), V: VStruct{}}
		}
	}
	if strings.HasPrefix(shape, "&{") && strings.HasSuffix(shape, "}") {
		// pointer to a struct with some fields fixed: &{raw:nil,marshaled:sym,parsed:nil}
		v := e.symbolicOf(st, t, name, 0)
		pv, ok := v.(VPtr)
		pt, ok2 := t.Underlying().(*types.Pointer)
		if ok && ok2 {
			sv, _ := e.load(st, pv).(VStruct)
			stt, _ := pt.Elem().Underlying().(*types.Struct)
			if stt != nil {
				fs := append([]Value{}, sv.F...)
				for _, kv := range strings.Split(shape[2:len(shape)-1], ",") {
					parts := strings.SplitN(kv, ":", 2)
					if len(parts) != 2 {
						continue
					}
					for i := 0; i < stt.NumFields(); i++ {
						if stt.Field(i).Name() == parts[0] {
							if strings.HasPrefix(parts[1], "slice") {
								// a slice of known length with symbolic elements (bounded shapes)
								var n int
								fmt.Sscanf(parts[1][5:], "%d", &n)
								if sl, ok := stt.Field(i).Type().Underlying().(*types.Slice); ok {
									elems := make([]Value, n)
									for j := range elems {
										elems[j] = e.symbolicOf(st, sl.Elem(), fmt.Sprintf("%s.%s.%d", name, parts[0], j), 0)
									}
									fs[i] = VSlice{Cell: e.newCell(st, VStruct{elems}), Lo: 0, Hi: n}
								}
								continue
							}
							switch parts[1] {
							case "nil":
								fs[i] = e.zeroOf(stt.Field(i).Type())
							case "nonnil":
								if fv, ok := fs[i].(VSym); ok && fv.T.Sort == SBytes {
									st.assume(Not(Eq(fv.T, nullB)))
								}
							}
						}
					}
				}
				st.heap[pv.Cell] = VStruct{fs}
			}
		}
		return v
	}
	v := e.symbolicOf(st, t, name, 0)
	if p, ok := v.(VPtr); ok {
		e.cellNames[p.Cell] = name
	}
	return v
}

func variantDesc(v Variant) string {
	var ks []string
	for k, sh := range v.Sets {
		ks = append(ks, k+"="+sh)
	}
	sort.Strings(ks)
	return strings.Join(ks, " ")
}

// verifyFunction verifies one function under contract. Loops that have no invariant in the contract file are handled
// by restarts: candidate invariants that turn out not to be inductive are dropped, and a loop that runs past the
// unwinding bound is cut with the invariant `true`; the function is then verified again. Only sound over-approximations
// are introduced this way (a dropped candidate is never assumed; `true` with the loop's targets havocked always holds).
func (e *Engine) verifyFunction(ct *Contract, prop string, tier string) *fnResult {
	e.autoLoop = map[string][]int{}
	e.autoCut = map[string]bool{}
	e.autoOff = map[string]bool{}
	var r *fnResult
	for attempt := 0; attempt < 6; attempt++ {
		e.autoCutWant = map[string]bool{}
		r = e.verifyFunctionOnce(ct, prop, tier)
		changed := false
		for _, o := range r.Obls {
			if strings.HasPrefix(o.ID, "auto:") && o.Status != "discharged" && strings.Contains(o.ID, "#nn:") {
				// "auto:<loopkey>#nn:<variable>.<phase>": a non-nil candidate that is not inductive
				id := strings.TrimSuffix(strings.TrimSuffix(o.ID[5:], ".entry"), ".preserved")
				if !e.autoOff[id] {
					e.autoOff[id] = true
					changed = true
				}
				continue
			}
			if strings.HasPrefix(o.ID, "auto:") && o.Status != "discharged" {
				// "auto:<loopkey>#<idx>.<phase>"
				rest := o.ID[5:]
				if i := strings.LastIndex(rest, "#"); i >= 0 {
					key := rest[:i]
					var idx int
					if n, _ := fmt.Sscanf(rest[i+1:], "%d", &idx); n == 1 {
						var keep []int
						for _, c := range e.autoLoop[key] {
							if c != idx {
								keep = append(keep, c)
							}
						}
						if len(keep) != len(e.autoLoop[key]) {
							e.autoLoop[key] = keep
							changed = true
						}
					}
				}
			}
		}
		for k := range e.autoCutWant {
			if !e.autoCut[k] {
				e.autoCut[k] = true
				changed = true
			}
		}
		if !changed {
			break
		}
	}
	// obligations of the automatic loop treatment are bookkeeping, not claims
	var keep []*Obligation
	for _, o := range r.Obls {
		if strings.HasPrefix(o.ID, "auto:") {
			if o.Status == "discharged" && strings.HasSuffix(o.ID, ".preserved") && !strings.Contains(o.ID, "#true") {
				r.Notes = append(r.Notes, "loop without a stated invariant: "+strings.TrimSuffix(o.ID[5:], ".preserved")+": candidate proved inductive and used ("+o.Clause+")")
			}
			continue
		}
		keep = append(keep, o)
	}
	r.Obls = keep
	return r
}

func (e *Engine) verifyFunctionOnce(ct *Contract, prop string, tier string) *fnResult {
	t0 := time.Now()
	res := &fnResult{Fn: ct.Fn, ByKind: map[string]int{}}
	if ct.Flags["trusted"] != "" {
		res.Notes = append(res.Notes, "TRUSTED: contract assumed at call sites, body not verified")
		return res
	}
	fn := e.findFunction(ct.Fn)
	if fn == nil {
		o := &Obligation{ID: ct.Short + ".resolves", Fn: ct.Fn, Kind: "resolve", Status: "undischarged",
			Detail: "function under contract not found in the package", Clause: "function exists"}
		for _, cl := range ct.allClauses() {
			for _, p := range cl.Props {
				if !hasProp(o.Props, p) {
					o.Props = append(o.Props, p)
				}
			}
		}
		res.Obls = append(res.Obls, o)
		return res
	}
	res.Finger = fingerprint(fn)
	// clauses of interest
	want := func(cl Clause) bool { return prop == "" || hasProp(cl.Props, prop) }
	obls := map[string]*Obligation{}
	var oblOrder []string
	getObl := func(id, kind, clause string, props []string, line int) *Obligation {
		if o, ok := obls[id]; ok {
			return o
		}
		o := &Obligation{ID: id, Fn: ct.Fn, Kind: kind, Clause: clause, Props: props, Status: "discharged",
			Pos: fmt.Sprintf("verif_contracts.go:%d", line)}
		obls[id] = o
		oblOrder = append(oblOrder, id)
		return o
	}
	structProps := allProps(ct)
	variants := ct.Variants
	if len(variants) == 0 {
		variants = []Variant{{Name: ""}}
	}
	type vc struct {
		header string        // built lazily by mkHeader (thousands of paths: the texts are large)
		mkHeader func() string
		goals  []pathGoal
		ex     *exitPath
		pre    *State
		extra  []string
	}
	var vcs []vc
	mustfailSeen := map[string]bool{}
	e.curFn = ct.Fn
	e.callbacksWriteDB = false
	e.dropAtBound = false
	inputDecls.Range(func(k, _ interface{}) bool { inputDecls.Delete(k); return true })
	e.noDBInv = ct.Flags["nodbinv"] != ""
	e.loopsSeen = map[string]bool{}
	e.dbErrors = true
	e.reachCount = nil
	e.unmodelled = map[string]int{}
	for _, variant := range variants {
		e.entryShapes = map[string]string{}
		e.unrollAll = variant.Sets["loops"] == "unroll"
		for k, v := range variant.Sets {
			if strings.HasPrefix(k, "entry:") {
				e.entryShapes[k[6:]] = v
			}
		}
		for _, shape := range e.paramShapes(fn, ct) {
			st := e.initialState()
			args := make([]Value, len(fn.Params))
			vars := map[string]Value{}
			typs := map[string]types.Type{}
			for i, p := range fn.Params {
				sh := shape[i]
				if v, ok := variant.Sets[p.Name()]; ok {
					sh = v
				}
				args[i] = e.shapedParam(st, p, sh)
				vars[p.Name()] = args[i]
				typs[p.Name()] = p.Type()
			}
			// free variables of closures under contract: symbolic cells
			var binds []Value
			for _, fv := range fn.FreeVars {
				v := e.symbolicOf(st, fv.Type(), fv.Name(), 0)
				binds = append(binds, v)
				vars[fv.Name()] = v
				typs[fv.Name()] = fv.Type()
			}
			for k, v := range ct.Flags {
				e.applyFlag(st, k, v)
			}
			// lets + requires at entry
			pre0 := st
			env := &rEnv{e: e, pre: pre0, post: pre0, vars: copyVars(vars), typs: typs, specs: e.contracts.specs}
			for _, l := range ct.Lets {
				if !usesPost(l.Node) {
					env.vars[l.Name] = env.eval(l.Node)
					if t := env.typeOf(l.Node); t != nil {
						env.typs[l.Name] = t
					}
				}
			}
			vacuousShape := false
			for _, rq := range ct.Requires {
				t := env.term(rq.Node)
				if env.err == nil && t.IsFalse() {
					vacuousShape = true
					break
				}
				if env.err != nil {
					res.Notes = append(res.Notes, fmt.Sprintf("BROKEN requires %s: %v", rq.Src, env.err))
					o := getObl(ct.Short+".contract-wellformed", "wellformed", rq.Src, structProps, rq.Line)
					o.Status, o.Detail = "broken", env.err.Error()
					env.err = nil
					continue
				}
				st.assume(t)
			}
			if vacuousShape {
				continue // this input shape is excluded by a precondition
			}
			pre := st.clone()
			st.entry = pre
			var exits []*exitPath
			endPathHook = func(s *State) {
				kind := "panic"
				detail := s.panicMsg
				if s.incomplete != "" {
					kind, detail = "incomplete", s.incomplete
				} else if s.deadlock != "" {
					kind, detail = "deadlock", s.deadlock
				}
				exits = append(exits, &exitPath{st: s, kind: kind, detail: detail})
				e.paths++
				if e.paths > e.maxPaths {
					panic(budgetExceeded{"paths"})
				}
			}
			func() {
				defer func() {
					if r := recover(); r != nil {
						if b, ok := r.(budgetExceeded); ok {
							res.Notes = append(res.Notes, "BROKEN budget exceeded: "+b.what)
							o := getObl(ct.Short+".budget", "budget", "execution within budget", structProps, ct.Line)
							o.Status, o.Detail = "broken", "path budget exceeded"
							return
						}
						panic(r)
					}
				}()
				e.paths = 0
				e.callFunction(st, fn, args, binds, 0, func(s *State, ret Value) {
					exits = append(exits, &exitPath{st: s, ret: ret, kind: "return"})
					e.paths++
					if e.paths > e.maxPaths {
						panic(budgetExceeded{"paths"})
					}
				})
			}()
			endPathHook = nil
			res.Paths += len(exits)
			vname := variant.Name
			if sn := shapeName(fn, shape); sn != "" {
				if vname != "" {
					vname += ","
				}
				vname += sn
			}
			for pi, ex := range exits {
				res.ByKind[ex.kind]++
				px := *pre // shallow view of the entry state; what evaluating old() declares goes to the path's own state
				px.sink = ex.st
				preX := &px
				env := &rEnv{e: e, pre: preX, post: ex.st, vars: copyVars(vars), typs: typs, specs: e.contracts.specs}
				e.bindResults(env, fn, ex.ret)
				for _, l := range ct.Lets {
					v := env.eval(l.Node)
					if env.err != nil {
						// not evaluable on this path (e.g. it names a call that did not happen): clauses that use it
						// fall under the rule for non-evaluable consequents
						env.err = nil
						delete(env.vars, l.Name)
						continue
					}
					env.vars[l.Name] = v
					if t := env.typeOf(l.Node); t != nil {
						env.typs[l.Name] = t
					}
				}
				var goals []pathGoal
				addGoal := func(o *Obligation, g Term) {
					o.Paths++
					if g.IsTrue() {
						o.Trivial++
						return
					}
					goals = append(goals, pathGoal{obl: o, goal: g, pathI: pi})
				}
				switch ex.kind {
				case "panic":
					if ct.Flags["maypanic"] == "" {
						o := getObl(ct.Short+".nopanic", "nopanic", "no reachable panic", structProps, ct.Line)
						o.Detail = ex.detail
						addGoal(o, TFalse)
					}
				case "incomplete":
					o := getObl(ct.Short+".complete", "complete", "every feasible path stays inside the modelled subset", structProps, ct.Line)
					o.Detail = ex.detail
					addGoal(o, TFalse)
				case "deadlock":
					o := getObl(ct.Short+".nodeadlock", "nodeadlock", "no self-deadlock", structProps, ct.Line)
					o.Detail = ex.detail
					addGoal(o, TFalse)
				}
				for _, cl := range ct.Ensures {
					if !want(cl) {
						continue
					}
					if cl.Only != "" && cl.Only != variant.Name {
						continue
					}
					applies := (cl.On == "" && ex.kind == "return") || (cl.On == "panic" && ex.kind == "panic") ||
						(cl.On == "any" && (ex.kind == "return" || ex.kind == "panic"))
					if !applies {
						continue
					}
					env.pol = 1
					g := env.term(cl.Node)
					env.pol = 0
					o := getObl(cl.Name, "ensures", cl.Src, cl.Props, cl.Line)
					if dbg := os.Getenv("ROSVC_DEBUGOBL"); dbg != "" && strings.Contains(cl.Name, dbg) {
						fmt.Fprintf(os.Stderr, "DEBUG %s path %d (%s) goal: %s err=%v\n", cl.Name, pi, ex.kind, truncate(g.S, 700), env.err)
					}
					if cl.Only != "" {
						o.Bounded = "input shape " + cl.Only + " (" + variantDesc(variant) + ")"
					}
					if env.err != nil {
						o.Status, o.Detail = "broken", env.err.Error()
						env.err = nil
						continue
					}
					addGoal(o, g)
				}
				if os.Getenv("ROSVC_VACUITY") != "" && ex.kind == "return" {
					// development aid: is the antecedent of every implication clause satisfiable on some path?
					for _, cl := range ct.Ensures {
						if cl.Node == nil || cl.Node.Op != "binary" || cl.Node.Text != "==>" || cl.On != "" || (cl.Only != "" && cl.Only != variant.Name) {
							continue
						}
						env.pol = -1
						a := env.term(cl.Node.Args[0])
						env.pol = 0
						if env.err != nil {
							env.err = nil
							continue
						}
						o := getObl("vacuity:"+cl.Name, "mustfail", "antecedent satisfiable: "+nodeText(cl.Node.Args[0]), cl.Props, cl.Line)
						o.Paths++
						if !a.IsFalse() {
							goals = append(goals, pathGoal{obl: o, goal: Not(a), pathI: pi})
						}
					}
				}
				for _, cl := range ct.MustFail {
					if !want(cl) && prop != "" {
						continue
					}
					if ex.kind != "return" {
						continue
					}
					g := env.term(cl.Node)
					o := getObl(ct.Short+".mustfail."+cl.Name, "mustfail", cl.Src, cl.Props, cl.Line)
					if env.err != nil {
						o.Status, o.Detail = "broken", env.err.Error()
						env.err = nil
						continue
					}
					if len(o.Props) == 0 {
						o.Props = structProps
					}
					o.Paths++
					if !g.IsTrue() {
						goals = append(goals, pathGoal{obl: o, goal: g, pathI: pi})
					}
					_ = mustfailSeen
				}
				if len(goals) > 0 {
					var gts []Term
					for _, g := range goals {
						gts = append(gts, g.goal)
					}
					e.instantiateAll(ex.st, preX, gts)
					for gi := range goals {
						if goals[gi].obl.Variant == "" {
							goals[gi].obl.Variant = vname
						}
					}
					var extra []string
					var defs strings.Builder
					for _, l := range ct.Lets {
						if sv, ok := env.vars[l.Name].(VSym); ok && !sv.T.IsConst() {
							nm := "let." + l.Name
							fmt.Fprintf(&defs, "(define-fun %s () %s %s)\n", nm, sv.T.Sort.Name, sv.T.S)
							if sv.T.Sort == SRow {
								for _, f := range []string{"r.present", "r.value", "r.tombstone", "r.cas", "r.exp", "r.rev", "r.isJSON", "r.xattrs"} {
									extra = append(extra, fmt.Sprintf("(%s %s)", f, nm))
								}
							} else {
								extra = append(extra, nm)
							}
						}
					}
					for vn, vv := range env.vars {
						if sv, ok := vv.(VSym); ok && !sv.T.IsConst() && len(sv.T.S) < 60 && (strings.HasPrefix(vn, "result") || vn == "err") {
							extra = append(extra, sv.T.S)
						}
					}
					extra = append(extra, "NULLB")
					exSt, defsText := ex.st, defs.String()
					vcs = append(vcs, vc{mkHeader: func() string { return e.scriptHeader(exSt, preX) + defsText }, goals: goals, ex: ex, pre: preX, extra: extra})
				}
			}
		}
	}
	// a contract that states clauses for N loops is about a function that has (itself or in the helpers executed in
	// place) at least N loops: if loops disappeared, the per-iteration clauses would otherwise vanish silently
	if len(ct.Loops) > 0 && len(e.loopsSeen) < len(ct.Loops) {
		o := getObl(ct.Short+".loops-present", "structure", fmt.Sprintf("the function (with the helpers executed in place) has the %d loops its contract speaks about", len(ct.Loops)), structProps, ct.Line)
		o.Paths++
		o.Status = "refuted"
		o.Detail = fmt.Sprintf("only %d loop(s) were met while executing it", len(e.loopsSeen))
	}
	// loop-invariant and call-site obligations collected during execution: one solver session per program point
	{
		groups := map[*State][]pathGoal{}
		var order []*State
		for _, so := range e.sideObls {
			if prop != "" && !hasProp(so.props, prop) && !strings.HasPrefix(so.id, "auto:") {
				continue
			}
			o := getObl(so.id, so.kind, so.clause, so.props, so.line)
			o.Paths++
			if so.goal.IsTrue() || so.st == nil {
				o.Trivial++
				continue
			}
			if dbg := os.Getenv("ROSVC_DEBUGOBL"); dbg != "" && strings.Contains(so.id, dbg) {
				fmt.Fprintf(os.Stderr, "DEBUG %s goal: %s\n", so.id, truncate(so.goal.S, 600))
			}
			if _, ok := groups[so.st]; !ok {
				order = append(order, so.st)
			}
			groups[so.st] = append(groups[so.st], pathGoal{obl: o, goal: so.goal})
		}
		for _, sst := range order {
			gs := groups[sst]
			var gts []Term
			for _, g := range gs {
				gts = append(gts, g.goal)
			}
			e.instantiateAll(sst, nil, gts)
			sstC := sst
			vcs = append(vcs, vc{mkHeader: func() string { return e.scriptHeader(sstC, nil) }, goals: gs})
		}
	}
	e.sideObls = nil
	// discharge: one session per path on z3-new, fall back to the other solvers per goal
	type job struct{ v vc }
	results := make([][]SolverResult, len(vcs))
	var mfMu sync.Mutex
	mfRefuted := map[string]bool{}
	parallel(len(vcs), e.workers, func(i int) {
		v := vcs[i]
		if v.mkHeader != nil {
			v.header = v.mkHeader()
		}
		gs := make([]Term, len(v.goals))
		for j, g := range v.goals {
			gs[j] = g.goal
		}
		// vacuity guards need one witness only: skip sessions whose must-fail goals are all refuted already
		allMF := true
		for _, g := range v.goals {
			if g.obl.Kind != "mustfail" {
				allMF = false
			}
		}
		if allMF {
			mfMu.Lock()
			done := true
			for _, g := range v.goals {
				if !mfRefuted[g.obl.ID] {
					done = false
				}
			}
			mfMu.Unlock()
			if done {
				rs := make([]SolverResult, len(gs))
				for j := range rs {
					rs[j] = SolverResult{Status: "skipped"}
				}
				results[i] = rs
				return
			}
		}
		defer func() {
			if results[i] == nil {
				return
			}
			mfMu.Lock()
			for j, g := range v.goals {
				if g.obl.Kind == "mustfail" && results[i][j].Status == "sat" {
					mfRefuted[g.obl.ID] = true
				}
			}
			mfMu.Unlock()
		}()
		rs, _ := e.solver.checkAll("z3-new", v.header, gs, nil, e.sessionTimeout)
		for j := range rs {
			mustfail := v.goals[j].obl.Kind == "mustfail"
			if rs[j].Status == "unsat" && !(tier == "thorough" && !mustfail) {
				continue
			}
			if rs[j].Status == "sat" && mustfail {
				continue
			}
			if rs[j].Status == "unsat" && tier == "thorough" {
				// second opinion
				r2 := e.solver.model("cvc5", v.header, gs[j], nil, e.goalTimeout)
				if r2.Status == "unsat" {
					rs[j].Solver = "z3-new+cvc5"
					continue
				}
				r3 := e.solver.model("z3", v.header, gs[j], nil, e.goalTimeout)
				if r3.Status == "unsat" {
					rs[j].Solver = "z3-new+z3"
					continue
				}
				if r2.Status == "sat" || r3.Status == "sat" {
					rs[j].Status = "disagree"
				}
				continue // a single solver's unsat still counts; noted
			}
			// not discharged by z3-new: try the others, then ask for a model
			for _, alt := range []string{"cvc5", "z3"} {
				r2 := e.solver.model(alt, v.header, gs[j], nil, e.goalTimeout)
				if r2.Status == "unsat" {
					rs[j] = r2
					break
				}
			}
			if rs[j].Status != "unsat" {
				wasError, errRaw := rs[j].Status == "error", rs[j].Raw
				vals := append(modelTerms(v.ex, v.pre), v.extra...)
				rm := e.solver.model("z3-new", v.header, gs[j], vals, e.goalTimeout)
				if rm.Status == "sat" {
					rs[j].Status = "sat"
					rs[j].Model = rm.Model
				} else if rm.Status == "error" || wasError {
					// the script itself is malformed (an engine defect): never a verdict about the code
					rs[j].Status = "error"
					if errRaw == "" {
						errRaw = strings.SplitN(strings.TrimSpace(rm.Raw), "\n", 2)[0]
					}
					rs[j].Raw = errRaw
				} else if rs[j].Status != "sat" {
					rs[j].Status = "unknown"
				}
			}
		}
		results[i] = rs
	})
	for i, v := range vcs {
		for j, g := range v.goals {
			r := results[i][j]
			o := g.obl
			o.Seconds += r.Seconds
			if o.Kind == "mustfail" {
				if r.Status == "sat" {
					o.Detail = "refuted"
				}
				continue
			}
			if r.Status == "unsat" {
				if o.Solver == "" || !strings.Contains(o.Solver, r.Solver) {
					if o.Solver != "" {
						o.Solver += ","
					}
					o.Solver += r.Solver
				}
				continue
			}
			if o.Status == "broken" {
				continue
			}
			if r.Status == "error" {
				o.Status, o.Detail = "broken", "solver rejected the generated script: "+truncate(r.Raw, 200)
				continue
			}
			if r.Status == "sat" {
				o.Status = "refuted"
			} else if o.Status != "refuted" {
				o.Status = "undischarged"
			}
			if o.FailSMT == "" || r.Status == "sat" {
				o.Model = r.Model
				hdr := v.header
				if hdr == "" && v.mkHeader != nil {
					hdr = v.mkHeader()
				}
				o.FailSMT = hdr + fmt.Sprintf("(assert (not %s))\n(check-sat)\n", g.goal.S)
				if v.ex != nil {
					o.FailPath = describePath(v.ex)
				}
				if r.Status != "sat" {
					o.Detail = strings.TrimSpace(o.Detail + " solver: " + r.Status + " " + r.Raw)
				}
			}
		}
	}
	for _, id := range oblOrder {
		o := obls[id]
		if ct.Flags["bounded"] != "" {
			o.Bounded = ct.Flags["bounded"]
		}
		if o.Kind == "mustfail" {
			if o.Detail == "refuted" {
				o.Status = "discharged"
				o.Detail = "must-fail clause refuted (vacuity guard)"
			} else if o.Status != "broken" {
				o.Status = "broken"
				o.Detail = "must-fail clause was not refuted on any path: contract or prelude is vacuous"
			}
		}
		res.Obls = append(res.Obls, o)
	}
	res.Seconds = time.Since(t0).Seconds()
	res.Unmodel = e.unmodelled
	return res
}

func shapeName(fn *ssa.Function, shape []string) string {
	var parts []string
	for i, s := range shape {
		if s != "" {
			parts = append(parts, fn.Params[i].Name()+"="+s)
		}
	}
	return strings.Join(parts, ",")
}

func allProps(ct *Contract) []string {
	set := map[string]bool{}
	for _, cl := range ct.allClauses() {
		for _, p := range cl.Props {
			set[p] = true
		}
	}
	var out []string
	for p := range set {
		out = append(out, p)
	}
	sort.Strings(out)
	return out
}

func copyVars(m map[string]Value) map[string]Value {
	c := make(map[string]Value, len(m)+8)
	for k, v := range m {
		c[k] = v
	}
	return c
}

// usesPost reports whether an expression reads the post state (so it cannot be evaluated at entry).
func usesPost(n *rNode) bool {
	if n == nil {
		return false
	}
	if n.Op == "call" && n.Text == "old" {
		return false
	}
	if n.Op == "call" && (n.Text == "doc" || n.Text == "docAt" || n.Text == "collLast") {
		return true
	}
	if n.Op == "id" {
		switch n.Text {
		case "db", "docs", "result", "err", "posted", "newCas", "now", "bucketLastCas", "collLastCas", "clockdraw", "panicked":
			return true
		}
	}
	for _, a := range n.Args {
		if usesPost(a) {
			return true
		}
	}
	return false
}

func (e *Engine) bindResults(env *rEnv, fn *ssa.Function, ret Value) {
	sig := fn.Signature
	n := sig.Results().Len()
	var vals []Value
	switch {
	case n == 0:
	case n == 1:
		vals = []Value{ret}
	default:
		if t, ok := ret.(VTuple); ok {
			vals = t.E
		}
	}
	if ret == nil && n > 0 {
		// abnormal exit: results are unconstrained
		for i := 0; i < n; i++ {
			vals = append(vals, VUnknown{Typ: sig.Results().At(i).Type(), Note: "noresult"})
		}
	}
	for i := 0; i < n && i < len(vals); i++ {
		r := sig.Results().At(i)
		if r.Name() != "" && r.Name() != "_" {
			env.vars[r.Name()] = vals[i]
			env.typs[r.Name()] = r.Type()
		}
		if r.Name() == "" || r.Name() == "_" {
			// results that had names on the verified tree keep them in contracts after a rewrite to unnamed results
			if names := e.resultNames[fnName(fn)]; i < len(names) && names[i] != "" {
				if _, taken := env.vars[names[i]]; !taken {
					env.vars[names[i]] = vals[i]
					env.typs[names[i]] = r.Type()
				}
			}
		}
		env.vars[fmt.Sprintf("result%d", i)] = vals[i]
		env.typs[fmt.Sprintf("result%d", i)] = r.Type()
		if i == n-1 && types.Identical(r.Type(), types.Universe.Lookup("error").Type()) {
			if _, ok := env.vars["err"]; !ok || r.Name() == "" {
				env.vars["err"] = vals[i]
				env.typs["err"] = r.Type()
			}
		}
	}
	if n == 1 && len(vals) == 1 {
		env.result = vals[0]
		env.vars["result"] = vals[0]
		env.typs["result"] = sig.Results().At(0).Type()
	}
}

func (e *Engine) applyFlag(st *State, k, v string) {
	switch k {
	case "nodberr":
		e.dbErrors = false
	case "callbacks":
		e.callbacksWriteDB = v == "writedb"
	case "unwind":
		e.dropAtBound = v == "drop"
	}
}

func describePath(ex *exitPath) string {
	var sb strings.Builder
	fmt.Fprintf(&sb, "exit=%s %s\n", ex.kind, ex.detail)
	if ex.ret != nil {
		fmt.Fprintf(&sb, "result=%s\n", truncate(showValue(ex.ret), 300))
	}
	for _, ev := range ex.st.trace {
		switch ev.Kind {
		case "sql":
			info, _ := ev.Extra.(*StmtInfo)
			h := ""
			if info != nil {
				h = info.Handle
			}
			fmt.Fprintf(&sb, "  sql[%s] %s  (%s)\n", h, truncate(ev.Text, 100), ev.Pos)
		case "post":
			fmt.Fprintf(&sb, "  post event locks=%v\n", ev.Locks)
		default:
			fmt.Fprintf(&sb, "  %s %s %s\n", ev.Kind, ev.Text, ev.Pos)
		}
	}
	for _, n := range ex.st.notes {
		fmt.Fprintf(&sb, "  note: %s\n", n)
	}
	return sb.String()
}

// modelTerms lists the input symbols worth printing in a counterexample.
func modelTerms(ex *exitPath, pre *State) []string {
	if ex == nil {
		return nil
	}
	var out []string
	seen := map[string]bool{}
	add := func(ds []string) {
		for _, d := range ds {
			// (declare-const NAME SORT)
			f := strings.Fields(d)
			if len(f) < 3 {
				continue
			}
			name := f[1]
			sortName := strings.TrimSuffix(strings.Join(f[2:], " "), ")")
			if seen[name] || strings.HasPrefix(sortName, "(Array") {
				continue
			}
			if strings.HasPrefix(name, "in.") || strings.HasPrefix(name, "clockdraw") || strings.HasPrefix(name, "now") ||
				name == "bucketLastCas0" {
				seen[name] = true
				out = append(out, name)
			}
		}
	}
	add(ex.st.decls)
	if pre != nil {
		add(pre.decls)
	}
	if len(out) > 60 {
		out = out[:60]
	}
	return out
}

func parallel(n, workers int, f func(i int)) {
	if workers < 1 {
		workers = 1
	}
	ch := make(chan int)
	done := make(chan bool)
	for w := 0; w < workers; w++ {
		go func() {
			for i := range ch {
				f(i)
			}
			done <- true
		}()
	}
	for i := 0; i < n; i++ {
		ch <- i
	}
	close(ch)
	for w := 0; w < workers; w++ {
		<-done
	}
}

type sideObl struct {
	id, kind, clause string
	props            []string
	line             int
	st               *State // snapshot shared by the obligations raised at the same point
	goal             Term
}

// instantiateBulk adds, for every pointwise table definition met on the path, its instance on every DocId term
// that occurs in the path condition or in a goal (the addressed row, Skolem rows of frame clauses, witnesses).
func (e *Engine) instantiateAll(st *State, pre *State, goals []Term) {
	if pre == nil {
		pre = st
	}
	// DocId terms of the obligation: every (mkId ..) term in the path condition or a goal, plus declared constants
	seen := map[string]bool{}
	var idx []Term
	scan := func(s string) {
		for off := 0; ; {
			i := strings.Index(s[off:], "(mkId ")
			if i < 0 {
				return
			}
			i += off
			d := 0
			j := i
			for ; j < len(s); j++ {
				if s[j] == '(' {
					d++
				} else if s[j] == ')' {
					d--
					if d == 0 {
						break
					}
				}
			}
			t := s[i : j+1]
			if !seen[t] && !strings.Contains(t, "q!") {
				seen[t] = true
				idx = append(idx, mkT(t, SDocId))
			}
			off = i + 6
		}
	}
	collectIdx := func() {
		for _, c := range st.pc {
			scan(c.S)
		}
		for _, g := range goals {
			scan(g.S)
		}
	}
	collectIdx()
	// quantified facts: instantiate on every declared constant of the sort (+ string literals, + DocId terms)
	for round := 0; round < 2; round++ {
		for sortName, fs := range st.inst {
			var terms []Term
			seenT := map[string]bool{}
			for _, ds := range [][]string{st.decls, pre.decls} {
				for _, d := range ds {
					if strings.HasSuffix(d, " "+sortName+")") {
						name := strings.Fields(d)[1]
						if !seenT[name] {
							seenT[name] = true
							terms = append(terms, mkT(name, canonSort(sortName)))
						}
					}
				}
			}
			if sortName == "Str" {
				for _, lit := range e.strOrder {
					terms = append(terms, mkT(e.strLits[lit], SStr))
				}
			}
			if sortName == "DocId" {
				for _, t := range idx {
					if !seenT[t.S] {
						seenT[t.S] = true
						terms = append(terms, t)
					}
				}
			}
			for _, f := range fs {
				for _, t := range terms {
					st.fact(f(st, t))
				}
			}
		}
		collectIdx()
	}
	if len(st.bulk) == 0 {
		return
	}
	for _, ds := range [][]string{st.decls, pre.decls} {
		for _, d := range ds {
			if strings.HasSuffix(d, " DocId)") {
				name := strings.Fields(d)[1]
				if !seen[name] {
					seen[name] = true
					idx = append(idx, mkT(name, SDocId))
				}
			}
		}
	}
	for _, f := range st.bulk {
		for _, i := range idx {
			st.fact(f(st, i))
		}
	}
}
