package main

import (
	"fmt"
	"go/types"
	"sort"
	"strings"

	"golang.org/x/tools/go/ssa"
)

// Value is an executor value. Values are immutable; mutable storage lives in State.heap cells.
type Value interface{}

type (
	// VSym is a scalar whose content is an SMT term (Int, Bool, Str, Bytes, JsonV, ...).
	VSym struct{ T Term }
	// VNil is a nil pointer / map / func / interface / slice (typed by context).
	VNil struct{}
	// VPtr points at a heap cell, or at a component of the value in it.
	VPtr struct {
		Cell int
		Path string // "" or ".3.0" style component path (comparable)
	}
	// VStruct is a struct or fixed-size array value.
	VStruct struct{ F []Value }
	// VTuple is a multi-value result.
	VTuple struct{ E []Value }
	// VFunc is a function value: plain function, closure, or bound method.
	VFunc struct {
		Fn   *ssa.Function
		Bind []Value
	}
	// VIface is a non-nil interface value with a known dynamic type.
	VIface struct {
		Typ types.Type
		V   Value
	}
	// VSlice is a slice with concrete structure over an array cell (varargs packs, literals).
	VSlice struct {
		Cell   int
		Lo, Hi int
	}
	// VAbs is an abstract object handled by the models in extern.go.
	VAbs struct {
		Kind string
		ID   int
		Data interface{}
	}
	// VMap is a reference to a map object stored in a heap cell (cell content is *MapObj copy-on-write).
	VMap struct{ Cell int }
	// VUnknown is a havocked value of a type the executor does not model structurally.
	VUnknown struct {
		Typ  types.Type
		Note string
		ID   int // identity: two reads of the same unknown agree on nil-ness
	}
)

// MapObj is the content of a map cell. Keys/values are SMT terms: Arr maps key -> value sort, with a
// per-sort "absent" marker; for maps whose values are not scalar, Concrete holds entries keyed by constant.
type MapObj struct {
	KeySort, ValSort *Sort
	Arr              Term // (Array KeySort ValSort); ValSort's absent marker denotes "no entry"
	Has              Term // (Array KeySort Bool): presence, for value sorts without an absent marker
	Absent           Term
	// Structured maps (values are executor values): only constant/identical keys are supported.
	Struct   bool
	Found    map[string]Term  // key term string -> "entry exists" (absent from this map = exists)
	Entries  map[string]Value // key term string -> value
	KeyTerms map[string]Term
	Typ      *types.Map
	Name     string // access path of an input map (deterministic naming of its entries)
	Havocked bool // content unknown (havocked by a loop rule)
	Fresh    bool // created by make() on this path: certainly non-nil
	NilT     Term // symbolic "map is nil" flag for input maps ("" = certainly non-nil)
	Len      Term // symbolic length, when tracked ("" = unknown)
}

func (m *MapObj) clone() *MapObj {
	c := *m
	if m.Entries != nil {
		c.Entries = make(map[string]Value, len(m.Entries))
		for k, v := range m.Entries {
			c.Entries[k] = v
		}
		c.KeyTerms = make(map[string]Term, len(m.KeyTerms))
		for k, v := range m.KeyTerms {
			c.KeyTerms[k] = v
		}
		c.Found = make(map[string]Term, len(m.Found))
		for k, v := range m.Found {
			c.Found[k] = v
		}
	}
	return &c
}

func (m *MapObj) sortedKeys() []string {
	ks := make([]string, 0, len(m.Entries))
	for k := range m.Entries {
		ks = append(ks, k)
	}
	sort.Strings(ks)
	return ks
}

func sym(t Term) VSym { return VSym{t} }

func showValue(v Value) string {
	switch x := v.(type) {
	case nil:
		return "<none>"
	case VSym:
		return x.T.S
	case VNil:
		return "nil"
	case VPtr:
		return fmt.Sprintf("&c%d%s", x.Cell, x.Path)
	case VStruct:
		var parts []string
		for _, f := range x.F {
			parts = append(parts, showValue(f))
		}
		return "{" + strings.Join(parts, ", ") + "}"
	case VTuple:
		var parts []string
		for _, f := range x.E {
			parts = append(parts, showValue(f))
		}
		return "(" + strings.Join(parts, ", ") + ")"
	case VFunc:
		return "func:" + x.Fn.String()
	case VIface:
		return fmt.Sprintf("iface[%s](%s)", x.Typ, showValue(x.V))
	case VSlice:
		return fmt.Sprintf("slice(c%d[%d:%d])", x.Cell, x.Lo, x.Hi)
	case VAbs:
		return fmt.Sprintf("abs:%s#%d", x.Kind, x.ID)
	case VMap:
		return fmt.Sprintf("map(c%d)", x.Cell)
	case VUnknown:
		return fmt.Sprintf("unknown[%s %s]", x.Typ, x.Note)
	}
	return fmt.Sprintf("%#v", v)
}

// ---------------------------------------------------------------------------
// Type classification

func isBytesType(t types.Type) bool {
	if s, ok := t.Underlying().(*types.Slice); ok {
		if b, ok := s.Elem().Underlying().(*types.Basic); ok && (b.Kind() == types.Uint8) {
			return true
		}
	}
	return false
}

// scalarSort returns the SMT sort used for values of Go type t, or nil if t is structural.
func scalarSort(t types.Type) *Sort {
	switch u := t.Underlying().(type) {
	case *types.Basic:
		info := u.Info()
		switch {
		case info&types.IsBoolean != 0:
			return SBool
		case info&types.IsInteger != 0:
			return SInt
		case info&types.IsString != 0:
			return SStr
		case info&types.IsFloat != 0:
			return SInt // floats do not occur in modelled code; treated as opaque ints
		case u.Kind() == types.UnsafePointer:
			return SInt
		}
	case *types.Slice:
		if isBytesType(t) {
			return SBytes
		}
	}
	return nil
}

// intRange returns the inclusive bounds of an integer Go type.
func intRange(t types.Type) (lo, hi string, ok bool) {
	b, isB := t.Underlying().(*types.Basic)
	if !isB || b.Info()&types.IsInteger == 0 {
		return "", "", false
	}
	switch b.Kind() {
	case types.Int8:
		return "(- 128)", "127", true
	case types.Int16:
		return "(- 32768)", "32767", true
	case types.Int32:
		return "(- 2147483648)", "2147483647", true
	case types.Int, types.Int64, types.UntypedInt:
		return "(- 9223372036854775808)", "9223372036854775807", true
	case types.Uint8:
		return "0", "255", true
	case types.Uint16:
		return "0", "65535", true
	case types.Uint32:
		return "0", "4294967295", true
	case types.Uint, types.Uint64, types.Uintptr:
		return "0", "18446744073709551615", true
	}
	return "", "", false
}

func isUnsigned(t types.Type) bool {
	b, ok := t.Underlying().(*types.Basic)
	return ok && b.Info()&types.IsUnsigned != 0
}

func typeIsPkg(t types.Type, pkg, name string) bool {
	if p, ok := t.(*types.Pointer); ok {
		t = p.Elem()
	}
	n, ok := t.(*types.Named)
	if !ok {
		return false
	}
	o := n.Obj()
	return o.Pkg() != nil && o.Pkg().Path() == pkg && o.Name() == name
}

func namedTypeString(t types.Type) string {
	return types.TypeString(t, func(p *types.Package) string { return p.Path() })
}
