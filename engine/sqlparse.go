package main

// A parser for the SQL subset used by rosmar (and a little more).

import (
	"fmt"
	"strings"
)

type sqlTok struct {
	kind string // id, num, str, param, op, kw(punct), eof
	text string
}

func sqlLex(src string) ([]sqlTok, error) {
	maxParam := 0
	var toks []sqlTok
	i := 0
	for i < len(src) {
		c := src[i]
		switch {
		case c == ' ' || c == '\t' || c == '\n' || c == '\r':
			i++
		case c == '-' && i+1 < len(src) && src[i+1] == '-':
			for i < len(src) && src[i] != '\n' {
				i++
			}
		case c == '/' && i+1 < len(src) && src[i+1] == '*':
			j := strings.Index(src[i+2:], "*/")
			if j < 0 {
				return nil, fmt.Errorf("unterminated comment")
			}
			i += j + 4
		case c == '\x01': // hole \x01Hn\x02
			j := strings.IndexByte(src[i:], '\x02')
			if j < 0 {
				return nil, fmt.Errorf("bad hole")
			}
			toks = append(toks, sqlTok{"param", "#" + src[i+2:i+j]})
			i += j + 1
		case isIdentStart(c):
			j := i
			for j < len(src) && isIdentChar(src[j]) {
				j++
			}
			toks = append(toks, sqlTok{"id", src[i:j]})
			i = j
		case c >= '0' && c <= '9':
			j := i
			for j < len(src) && src[j] >= '0' && src[j] <= '9' {
				j++
			}
			toks = append(toks, sqlTok{"num", src[i:j]})
			i = j
		case c == '\'':
			j := i + 1
			var sb strings.Builder
			for j < len(src) {
				if src[j] == '\'' {
					if j+1 < len(src) && src[j+1] == '\'' {
						sb.WriteByte('\'')
						j += 2
						continue
					}
					break
				}
				sb.WriteByte(src[j])
				j++
			}
			toks = append(toks, sqlTok{"str", sb.String()})
			i = j + 1
		case c == '?':
			j := i + 1
			for j < len(src) && src[j] >= '0' && src[j] <= '9' {
				j++
			}
			text := src[i:j]
			if text == "?" {
				// SQLite: a plain ? is numbered one more than the largest parameter number assigned so far; numbering it
				// here (textual order) makes its meaning independent of the order in which clauses are evaluated
				maxParam++
				text = fmt.Sprintf("?%d", maxParam)
			} else {
				var n int
				fmt.Sscanf(text[1:], "%d", &n)
				if n > maxParam {
					maxParam = n
				}
			}
			toks = append(toks, sqlTok{"param", text})
			i = j
		case c == '$' || c == ':' || c == '@':
			j := i + 1
			for j < len(src) && isIdentChar(src[j]) {
				j++
			}
			toks = append(toks, sqlTok{"param", src[i:j]})
			i = j
		default:
			two := ""
			if i+1 < len(src) {
				two = src[i : i+2]
			}
			switch two {
			case "==", "!=", "<>", "<=", ">=", "||":
				toks = append(toks, sqlTok{"op", two})
				i += 2
				continue
			}
			switch c {
			case '=', '<', '>', '+', '-', '*', '/', '(', ')', ',', ';', '.':
				toks = append(toks, sqlTok{"op", string(c)})
				i++
			default:
				return nil, fmt.Errorf("unexpected character %q", c)
			}
		}
	}
	toks = append(toks, sqlTok{"eof", ""})
	return toks, nil
}

func isIdentStart(c byte) bool {
	return c == '_' || (c >= 'a' && c <= 'z') || (c >= 'A' && c <= 'Z')
}
func isIdentChar(c byte) bool { return isIdentStart(c) || (c >= '0' && c <= '9') }

type SQLExpr struct {
	Op   string // col, param, num, str, null, not, and, or, cmp ops, isnull, notnull, concat, call, in, true, false
	Name string // column / function / param name
	Tbl  string // table qualifier
	Args []*SQLExpr
	Sub  *SQLStmt
}

type SQLSet struct {
	Col  string
	Expr *SQLExpr
}

type SQLSelItem struct {
	Expr  *SQLExpr
	Alias string
	Star  bool
}

type SQLStmt struct {
	Kind     string // select insert update delete pragma other
	Table    string
	Join     []string // additional joined tables (select)
	JoinOn   []*SQLExpr
	Cols     []string
	Values   []*SQLExpr
	HasConfl bool
	ConflCol []string
	ConflSet []SQLSet
	ConflWh  *SQLExpr
	Sets     []SQLSet
	Where    *SQLExpr
	Sel      []SQLSelItem
	OrderBy  []*SQLExpr
	OrderDesc []bool
	Limit    *SQLExpr
	With     map[string]*SQLStmt
	WithOrder []string
	Rest     string // unparsed remainder (user query after the CTE)
	Raw      string
}

type sqlParser struct {
	toks []sqlTok
	p    int
	src  string
}

func (p *sqlParser) peek() sqlTok { return p.toks[p.p] }
func (p *sqlParser) next() sqlTok { t := p.toks[p.p]; p.p++; return t }
func (p *sqlParser) isKw(kw string) bool {
	t := p.peek()
	return t.kind == "id" && strings.EqualFold(t.text, kw)
}
func (p *sqlParser) acceptKw(kw string) bool {
	if p.isKw(kw) {
		p.p++
		return true
	}
	return false
}
func (p *sqlParser) isOp(op string) bool { t := p.peek(); return t.kind == "op" && t.text == op }
func (p *sqlParser) acceptOp(op string) bool {
	if p.isOp(op) {
		p.p++
		return true
	}
	return false
}
func (p *sqlParser) expectKw(kw string) error {
	if !p.acceptKw(kw) {
		return fmt.Errorf("expected %s, got %q", kw, p.peek().text)
	}
	return nil
}
func (p *sqlParser) expectOp(op string) error {
	if !p.acceptOp(op) {
		return fmt.Errorf("expected %q, got %q", op, p.peek().text)
	}
	return nil
}
func (p *sqlParser) ident() (string, error) {
	t := p.next()
	if t.kind != "id" {
		return "", fmt.Errorf("expected identifier, got %q", t.text)
	}
	return t.text, nil
}

func parseSQL(src string) (*SQLStmt, error) {
	toks, err := sqlLex(src)
	if err != nil {
		return nil, err
	}
	p := &sqlParser{toks: toks, src: src}
	st, err := p.statement()
	if err != nil {
		return nil, fmt.Errorf("%v in %q", err, truncate(src, 120))
	}
	st.Raw = src
	p.acceptOp(";")
	if p.peek().kind != "eof" && st.Kind != "other" {
		return nil, fmt.Errorf("trailing tokens at %q in %q", p.peek().text, truncate(src, 120))
	}
	return st, nil
}

func truncate(s string, n int) string {
	s = strings.Join(strings.Fields(s), " ")
	if len(s) > n {
		return s[:n] + "..."
	}
	return s
}

func (p *sqlParser) statement() (*SQLStmt, error) {
	switch {
	case p.isKw("WITH"):
		p.next()
		st := &SQLStmt{Kind: "with", With: map[string]*SQLStmt{}}
		for {
			name, err := p.ident()
			if err != nil {
				return nil, err
			}
			if err := p.expectKw("AS"); err != nil {
				return nil, err
			}
			if err := p.expectOp("("); err != nil {
				return nil, err
			}
			sub, err := p.selectStmt()
			if err != nil {
				return nil, err
			}
			if err := p.expectOp(")"); err != nil {
				return nil, err
			}
			st.With[name] = sub
			st.WithOrder = append(st.WithOrder, name)
			if !p.acceptOp(",") {
				break
			}
		}
		// the remainder is the user's statement: kept as text
		var rest []string
		for p.peek().kind != "eof" {
			rest = append(rest, p.next().text)
		}
		st.Rest = strings.Join(rest, " ")
		return st, nil
	case p.isKw("SELECT"):
		return p.selectStmt()
	case p.isKw("INSERT"):
		return p.insertStmt()
	case p.isKw("UPDATE"):
		return p.updateStmt()
	case p.isKw("DELETE"):
		return p.deleteStmt()
	case p.isKw("PRAGMA"):
		p.next()
		name, _ := p.ident()
		st := &SQLStmt{Kind: "pragma", Table: name}
		for p.peek().kind != "eof" {
			p.next()
		}
		return st, nil
	}
	st := &SQLStmt{Kind: "other"}
	for p.peek().kind != "eof" {
		p.next()
	}
	return st, nil
}

func (p *sqlParser) selectStmt() (*SQLStmt, error) {
	if err := p.expectKw("SELECT"); err != nil {
		return nil, err
	}
	st := &SQLStmt{Kind: "select"}
	for {
		if p.acceptOp("*") {
			st.Sel = append(st.Sel, SQLSelItem{Star: true})
		} else {
			e, err := p.expr()
			if err != nil {
				return nil, err
			}
			item := SQLSelItem{Expr: e}
			if p.acceptKw("AS") {
				a, err := p.ident()
				if err != nil {
					return nil, err
				}
				item.Alias = a
			}
			st.Sel = append(st.Sel, item)
		}
		if !p.acceptOp(",") {
			break
		}
	}
	if p.acceptKw("FROM") {
		t, err := p.ident()
		if err != nil {
			return nil, err
		}
		st.Table = t
		for {
			if p.acceptKw("INNER") || p.acceptKw("LEFT") || p.acceptKw("RIGHT") {
				p.acceptKw("OUTER")
			}
			if !p.acceptKw("JOIN") {
				break
			}
			jt, err := p.ident()
			if err != nil {
				return nil, err
			}
			st.Join = append(st.Join, jt)
			if p.acceptKw("ON") {
				e, err := p.expr()
				if err != nil {
					return nil, err
				}
				st.JoinOn = append(st.JoinOn, e)
			}
		}
	}
	if p.acceptKw("WHERE") {
		e, err := p.expr()
		if err != nil {
			return nil, err
		}
		st.Where = e
	}
	if p.acceptKw("ORDER") {
		if err := p.expectKw("BY"); err != nil {
			return nil, err
		}
		for {
			e, err := p.expr()
			if err != nil {
				return nil, err
			}
			desc := false
			if p.acceptKw("DESC") {
				desc = true
			} else {
				p.acceptKw("ASC")
			}
			st.OrderBy = append(st.OrderBy, e)
			st.OrderDesc = append(st.OrderDesc, desc)
			if !p.acceptOp(",") {
				break
			}
		}
	}
	if p.acceptKw("LIMIT") {
		e, err := p.expr()
		if err != nil {
			return nil, err
		}
		st.Limit = e
	}
	return st, nil
}

func (p *sqlParser) identList() ([]string, error) {
	var out []string
	if err := p.expectOp("("); err != nil {
		return nil, err
	}
	for {
		id, err := p.ident()
		if err != nil {
			return nil, err
		}
		out = append(out, id)
		if !p.acceptOp(",") {
			break
		}
	}
	return out, p.expectOp(")")
}

func (p *sqlParser) setList() ([]SQLSet, error) {
	var sets []SQLSet
	for {
		col, err := p.ident()
		if err != nil {
			return nil, err
		}
		if err := p.expectOp("="); err != nil {
			return nil, err
		}
		e, err := p.expr()
		if err != nil {
			return nil, err
		}
		sets = append(sets, SQLSet{col, e})
		if !p.acceptOp(",") {
			break
		}
	}
	return sets, nil
}

func (p *sqlParser) insertStmt() (*SQLStmt, error) {
	p.next()
	if err := p.expectKw("INTO"); err != nil {
		return nil, err
	}
	t, err := p.ident()
	if err != nil {
		return nil, err
	}
	st := &SQLStmt{Kind: "insert", Table: t}
	if st.Cols, err = p.identList(); err != nil {
		return nil, err
	}
	if err := p.expectKw("VALUES"); err != nil {
		return nil, err
	}
	if err := p.expectOp("("); err != nil {
		return nil, err
	}
	for {
		e, err := p.expr()
		if err != nil {
			return nil, err
		}
		st.Values = append(st.Values, e)
		if !p.acceptOp(",") {
			break
		}
	}
	if err := p.expectOp(")"); err != nil {
		return nil, err
	}
	if len(st.Values) != len(st.Cols) {
		return nil, fmt.Errorf("%d values for %d columns", len(st.Values), len(st.Cols))
	}
	if p.acceptKw("ON") {
		if err := p.expectKw("CONFLICT"); err != nil {
			return nil, err
		}
		st.HasConfl = true
		if p.isOp("(") {
			if st.ConflCol, err = p.identList(); err != nil {
				return nil, err
			}
		}
		if err := p.expectKw("DO"); err != nil {
			return nil, err
		}
		if p.acceptKw("NOTHING") {
			return st, nil
		}
		if err := p.expectKw("UPDATE"); err != nil {
			return nil, err
		}
		if err := p.expectKw("SET"); err != nil {
			return nil, err
		}
		if st.ConflSet, err = p.setList(); err != nil {
			return nil, err
		}
		if p.acceptKw("WHERE") {
			if st.ConflWh, err = p.expr(); err != nil {
				return nil, err
			}
		}
	}
	return st, nil
}

func (p *sqlParser) updateStmt() (*SQLStmt, error) {
	p.next()
	t, err := p.ident()
	if err != nil {
		return nil, err
	}
	st := &SQLStmt{Kind: "update", Table: t}
	if err := p.expectKw("SET"); err != nil {
		return nil, err
	}
	if st.Sets, err = p.setList(); err != nil {
		return nil, err
	}
	if p.acceptKw("WHERE") {
		if st.Where, err = p.expr(); err != nil {
			return nil, err
		}
	}
	return st, nil
}

func (p *sqlParser) deleteStmt() (*SQLStmt, error) {
	p.next()
	if err := p.expectKw("FROM"); err != nil {
		return nil, err
	}
	t, err := p.ident()
	if err != nil {
		return nil, err
	}
	st := &SQLStmt{Kind: "delete", Table: t}
	if p.acceptKw("WHERE") {
		if st.Where, err = p.expr(); err != nil {
			return nil, err
		}
	}
	return st, nil
}

// expression grammar: or > and > not > comparison > concat > primary
func (p *sqlParser) expr() (*SQLExpr, error) { return p.orExpr() }

func (p *sqlParser) orExpr() (*SQLExpr, error) {
	l, err := p.andExpr()
	if err != nil {
		return nil, err
	}
	for p.acceptKw("OR") {
		r, err := p.andExpr()
		if err != nil {
			return nil, err
		}
		l = &SQLExpr{Op: "or", Args: []*SQLExpr{l, r}}
	}
	return l, nil
}

func (p *sqlParser) andExpr() (*SQLExpr, error) {
	l, err := p.notExpr()
	if err != nil {
		return nil, err
	}
	for p.acceptKw("AND") {
		r, err := p.notExpr()
		if err != nil {
			return nil, err
		}
		l = &SQLExpr{Op: "and", Args: []*SQLExpr{l, r}}
	}
	return l, nil
}

func (p *sqlParser) notExpr() (*SQLExpr, error) {
	if p.acceptKw("NOT") {
		e, err := p.notExpr()
		if err != nil {
			return nil, err
		}
		return &SQLExpr{Op: "not", Args: []*SQLExpr{e}}, nil
	}
	return p.cmpExpr()
}

func (p *sqlParser) cmpExpr() (*SQLExpr, error) {
	l, err := p.concatExpr()
	if err != nil {
		return nil, err
	}
	for {
		t := p.peek()
		switch {
		case t.kind == "op" && (t.text == "=" || t.text == "==" || t.text == "!=" || t.text == "<>" ||
			t.text == "<" || t.text == "<=" || t.text == ">" || t.text == ">="):
			p.next()
			r, err := p.concatExpr()
			if err != nil {
				return nil, err
			}
			op := t.text
			if op == "==" {
				op = "="
			}
			if op == "<>" {
				op = "!="
			}
			l = &SQLExpr{Op: op, Args: []*SQLExpr{l, r}}
		case p.isKw("IS"):
			p.next()
			neg := p.acceptKw("NOT")
			if err := p.expectKw("NULL"); err != nil {
				return nil, err
			}
			if neg {
				l = &SQLExpr{Op: "notnull", Args: []*SQLExpr{l}}
			} else {
				l = &SQLExpr{Op: "isnull", Args: []*SQLExpr{l}}
			}
		case p.isKw("NOT") && p.p+1 < len(p.toks) && strings.EqualFold(p.toks[p.p+1].text, "NULL"):
			p.next()
			p.next()
			l = &SQLExpr{Op: "notnull", Args: []*SQLExpr{l}}
		case p.isKw("NOTNULL"):
			p.next()
			l = &SQLExpr{Op: "notnull", Args: []*SQLExpr{l}}
		case p.isKw("ISNULL"):
			p.next()
			l = &SQLExpr{Op: "isnull", Args: []*SQLExpr{l}}
		case p.isKw("IN"):
			p.next()
			if err := p.expectOp("("); err != nil {
				return nil, err
			}
			sub, err := p.selectStmt()
			if err != nil {
				return nil, err
			}
			if err := p.expectOp(")"); err != nil {
				return nil, err
			}
			l = &SQLExpr{Op: "in", Args: []*SQLExpr{l}, Sub: sub}
		default:
			return l, nil
		}
	}
}

func (p *sqlParser) concatExpr() (*SQLExpr, error) {
	l, err := p.addExpr()
	if err != nil {
		return nil, err
	}
	for p.acceptOp("||") {
		r, err := p.addExpr()
		if err != nil {
			return nil, err
		}
		l = &SQLExpr{Op: "concat", Args: []*SQLExpr{l, r}}
	}
	return l, nil
}

func (p *sqlParser) addExpr() (*SQLExpr, error) {
	l, err := p.primary()
	if err != nil {
		return nil, err
	}
	for p.isOp("+") || p.isOp("-") {
		op := p.next().text
		r, err := p.primary()
		if err != nil {
			return nil, err
		}
		l = &SQLExpr{Op: op, Args: []*SQLExpr{l, r}}
	}
	return l, nil
}

func (p *sqlParser) primary() (*SQLExpr, error) {
	t := p.next()
	switch t.kind {
	case "num":
		return &SQLExpr{Op: "num", Name: t.text}, nil
	case "str":
		return &SQLExpr{Op: "str", Name: t.text}, nil
	case "param":
		return &SQLExpr{Op: "param", Name: t.text}, nil
	case "op":
		if t.text == "(" {
			e, err := p.expr()
			if err != nil {
				return nil, err
			}
			return e, p.expectOp(")")
		}
		if t.text == "-" {
			e, err := p.primary()
			if err != nil {
				return nil, err
			}
			return &SQLExpr{Op: "-", Args: []*SQLExpr{{Op: "num", Name: "0"}, e}}, nil
		}
	case "id":
		switch strings.ToLower(t.text) {
		case "null":
			return &SQLExpr{Op: "null"}, nil
		case "true":
			return &SQLExpr{Op: "num", Name: "1"}, nil
		case "false":
			return &SQLExpr{Op: "num", Name: "0"}, nil
		}
		if strings.EqualFold(t.text, "cast") && p.isOp("(") {
			// CAST(expr AS type): the value is unchanged in the engine's semantics (storage class only); the target type
			// is kept in Name so that contracts can ask for it
			p.next()
			x, err := p.expr()
			if err != nil {
				return nil, err
			}
			if err := p.expectKw("AS"); err != nil {
				return nil, err
			}
			ty, err := p.ident()
			if err != nil {
				return nil, err
			}
			if err := p.expectOp(")"); err != nil {
				return nil, err
			}
			return &SQLExpr{Op: "cast", Name: strings.ToLower(ty), Args: []*SQLExpr{x}}, nil
		}
		if p.acceptOp("(") {
			call := &SQLExpr{Op: "call", Name: strings.ToLower(t.text)}
			if !p.acceptOp(")") {
				for {
					a, err := p.expr()
					if err != nil {
						return nil, err
					}
					call.Args = append(call.Args, a)
					if !p.acceptOp(",") {
						break
					}
				}
				if err := p.expectOp(")"); err != nil {
					return nil, err
				}
			}
			return call, nil
		}
		if p.acceptOp(".") {
			c, err := p.ident()
			if err != nil {
				return nil, err
			}
			return &SQLExpr{Op: "col", Name: c, Tbl: t.text}, nil
		}
		return &SQLExpr{Op: "col", Name: t.text}, nil
	}
	return nil, fmt.Errorf("unexpected token %q", t.text)
}

// conjuncts flattens top-level ANDs.
func conjuncts(e *SQLExpr) []*SQLExpr {
	if e == nil {
		return nil
	}
	if e.Op == "and" {
		return append(conjuncts(e.Args[0]), conjuncts(e.Args[1])...)
	}
	return []*SQLExpr{e}
}

// ---------------------------------------------------------------------------
// schema.sql: column names and defaults of the documents table

type ColDef struct {
	Name    string
	Type    string
	Default string // "" = NULL
	NotNull bool
}

func parseSchemaTable(schema, table string) ([]ColDef, error) {
	low := strings.ToLower(schema)
	idx := strings.Index(low, "create table "+strings.ToLower(table))
	if idx < 0 {
		return nil, fmt.Errorf("table %s not found in schema", table)
	}
	open := strings.Index(schema[idx:], "(")
	depth := 0
	end := -1
	for i := idx + open; i < len(schema); i++ {
		if schema[i] == '(' {
			depth++
		} else if schema[i] == ')' {
			depth--
			if depth == 0 {
				end = i
				break
			}
		}
	}
	body := schema[idx+open+1 : end]
	// strip comments
	for {
		a := strings.Index(body, "/*")
		if a < 0 {
			break
		}
		b := strings.Index(body[a:], "*/")
		body = body[:a] + body[a+b+2:]
	}
	var cols []ColDef
	depth = 0
	start := 0
	var parts []string
	for i := 0; i < len(body); i++ {
		switch body[i] {
		case '(':
			depth++
		case ')':
			depth--
		case ',':
			if depth == 0 {
				parts = append(parts, body[start:i])
				start = i + 1
			}
		}
	}
	parts = append(parts, body[start:])
	for _, part := range parts {
		f := strings.Fields(part)
		if len(f) < 2 {
			continue
		}
		if strings.EqualFold(f[0], "unique") || strings.EqualFold(f[0], "primary") || strings.EqualFold(f[0], "foreign") {
			continue
		}
		cd := ColDef{Name: f[0], Type: strings.ToLower(f[1])}
		for i := 2; i < len(f); i++ {
			if strings.EqualFold(f[i], "default") && i+1 < len(f) {
				cd.Default = strings.ToLower(f[i+1])
			}
			if strings.EqualFold(f[i], "not") && i+1 < len(f) && strings.EqualFold(f[i+1], "null") {
				cd.NotNull = true
			}
		}
		cols = append(cols, cd)
	}
	return cols, nil
}

// schemaTableParts returns the comma-separated parts (column definitions and table constraints) of CREATE TABLE <table>.
func schemaTableParts(schema, table string) ([]string, bool) {
	low := strings.ToLower(schema)
	idx := -1
	for _, cand := range []string{"create table " + strings.ToLower(table) + " ", "create table " + strings.ToLower(table) + "("} {
		if i := strings.Index(low, cand); i >= 0 {
			idx = i
			break
		}
	}
	if idx < 0 {
		return nil, false
	}
	open := strings.Index(schema[idx:], "(")
	depth, end := 0, -1
	for i := idx + open; i < len(schema); i++ {
		if schema[i] == '(' {
			depth++
		} else if schema[i] == ')' {
			depth--
			if depth == 0 {
				end = i
				break
			}
		}
	}
	if end < 0 {
		return nil, false
	}
	body := schema[idx+open+1 : end]
	for {
		a := strings.Index(body, "/*")
		if a < 0 {
			break
		}
		b := strings.Index(body[a:], "*/")
		if b < 0 {
			break
		}
		body = body[:a] + body[a+b+2:]
	}
	var parts []string
	depth = 0
	start := 0
	for i := 0; i < len(body); i++ {
		switch body[i] {
		case '(':
			depth++
		case ')':
			depth--
		case ',':
			if depth == 0 {
				parts = append(parts, strings.TrimSpace(body[start:i]))
				start = i + 1
			}
		}
	}
	parts = append(parts, strings.TrimSpace(body[start:]))
	return parts, true
}

func schemaColumnDef(schema, table, col string) (string, bool) {
	parts, ok := schemaTableParts(schema, table)
	if !ok {
		return "", false
	}
	for _, p := range parts {
		f := strings.Fields(p)
		if len(f) >= 2 && strings.EqualFold(f[0], col) {
			return p, true
		}
	}
	return "", false
}

func schemaHasUnique(schema, table, cols string) bool {
	parts, ok := schemaTableParts(schema, table)
	if !ok {
		return false
	}
	want := map[string]bool{}
	for _, c := range strings.Split(cols, ",") {
		want[strings.ToLower(strings.TrimSpace(c))] = true
	}
	for _, p := range parts {
		lp := strings.ToLower(strings.TrimSpace(p))
		if !strings.HasPrefix(lp, "unique") {
			continue
		}
		a, b := strings.Index(lp, "("), strings.LastIndex(lp, ")")
		if a < 0 || b < a {
			continue
		}
		got := map[string]bool{}
		for _, c := range strings.Split(lp[a+1:b], ",") {
			got[strings.TrimSpace(c)] = true
		}
		if len(got) == len(want) {
			same := true
			for c := range want {
				if !got[c] {
					same = false
				}
			}
			if same {
				return true
			}
		}
	}
	return false
}

// sqlExprText prints an expression in a canonical lower-case form (contracts compare small pieces of statements, such
// as the ORDER BY list of the view read-out, by this text).
func sqlExprText(x *SQLExpr) string {
	if x == nil {
		return ""
	}
	switch x.Op {
	case "col":
		if x.Tbl != "" {
			return strings.ToLower(x.Tbl) + "." + strings.ToLower(x.Name)
		}
		return strings.ToLower(x.Name)
	case "param":
		return x.Name
	case "num":
		return x.Name
	case "str":
		return "'" + x.Name + "'"
	case "null":
		return "null"
	case "call":
		var as []string
		for _, a := range x.Args {
			as = append(as, sqlExprText(a))
		}
		return x.Name + "(" + strings.Join(as, ",") + ")"
	case "cast":
		if len(x.Args) == 1 {
			return "cast(" + sqlExprText(x.Args[0]) + " as " + x.Name + ")"
		}
	case "not", "isnull", "notnull":
		if len(x.Args) == 1 {
			return x.Op + "(" + sqlExprText(x.Args[0]) + ")"
		}
	}
	if len(x.Args) == 2 {
		return "(" + sqlExprText(x.Args[0]) + x.Op + sqlExprText(x.Args[1]) + ")"
	}
	var as []string
	for _, a := range x.Args {
		as = append(as, sqlExprText(a))
	}
	return x.Op + "(" + strings.Join(as, ",") + ")"
}
