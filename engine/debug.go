package main

import "os"

var debugReq = os.Getenv("ROSVC_DEBUGREQ") != ""
