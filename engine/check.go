package main

// `rosvc check --property Cxx --tier quick|thorough`: the command registered in MANIFEST.json.

import (
	"runtime/debug"
	"os/exec"
	"sync"
	"encoding/json"
	"fmt"
	"os"
	"path/filepath"
	"sort"
	"strconv"
	"strings"
	"time"
)

const verifRoot = "/verif"

// outRoot is where evidence and replay files are written: /verif, or a scratch directory when the corpus scripts run
// the checks against a patched scratch copy (ROSVC_OUT), so that those runs never overwrite the real evidence.
func outRoot() string {
	if d := os.Getenv("ROSVC_OUT"); d != "" {
		return d
	}
	return verifRoot
}

type KnownFinding struct {
	Property   string `json:"property"`
	Obligation string `json:"obligation"`
	Status     string `json:"status"` // open | fixed
	Region     string `json:"region,omitempty"`
	What       string `json:"what"`
	Commit     string `json:"commit,omitempty"`
	Demo       string `json:"demo,omitempty"`
}

type KnownFile struct {
	Findings []KnownFinding `json:"findings"`
}

func loadKnown() (*KnownFile, error) {
	data, err := os.ReadFile(filepath.Join(verifRoot, "known_findings.json"))
	if err != nil {
		if os.IsNotExist(err) {
			return &KnownFile{}, nil
		}
		return nil, err
	}
	var kf KnownFile
	if err := json.Unmarshal(data, &kf); err != nil {
		return nil, err
	}
	return &kf, nil
}

// baseline: property -> obligation ids that discharge on the unchanged tree
func loadBaseline() (map[string]map[string]bool, error) {
	data, err := os.ReadFile(filepath.Join(verifRoot, "obligations.baseline"))
	if err != nil {
		if os.IsNotExist(err) {
			return map[string]map[string]bool{}, nil
		}
		return nil, err
	}
	out := map[string]map[string]bool{}
	for _, l := range strings.Split(string(data), "\n") {
		f := strings.Fields(l)
		if len(f) < 2 || strings.HasPrefix(f[0], "#") {
			continue
		}
		if out[f[0]] == nil {
			out[f[0]] = map[string]bool{}
		}
		out[f[0]][f[1]] = true
	}
	return out, nil
}

var assumptionsText = map[string]string{
	"A-SSA":   "A-SSA: go/ssa (x/tools v0.29.0) represents the source faithfully; the SSA of every function under contract is rebuilt from /repo on every run (fingerprints in coverage.functions_under_contract)",
	"A-SQL":   "A-SQL: the row-wise semantics given to the SQL text found in the code equals SQLite's on those statements",
	"A-DRV":   "A-DRV: database/sql + mattn/go-sqlite3: nil []byte <=> NULL, integers round-trip, RowsAffected/LastInsertId meanings, Scan leaves destinations alone on error",
	"A-TXN":   "A-TXN: a committed SQLite transaction is atomic, isolated and durable; a failed statement leaves the transaction's earlier effects in place until Rollback",
	"A-BUSY":  "A-BUSY: statements issued under the bucket mutex do not fail with SQLITE_BUSY/LOCKED (the retry branch of inTransaction is proved unreachable under this)",
	"A-JSON":  "A-JSON: json.Marshal/Unmarshal on map[string]RawMessage are mutually inverse up to JSON equality; encoding/json otherwise uninterpreted",
	"A-MUTEX": "A-MUTEX: sync.Mutex / sync.Cond semantics",
	"A-ALIAS": "A-ALIAS: distinct pointer inputs do not alias unless the contract models the sharing",
	"A-INT":   "A-INT: machine integers are modelled as mathematical integers with explicit wrap-around for unsigned arithmetic; preconditions state the ranges (clock seconds < 2^32-30d, counters below 2^63)",
	"A-LOG":   "A-LOG: logging/trace helpers do not touch modelled state",
	"A-EXT":   "A-EXT: unmodelled external functions return arbitrary values and do not write rosmar's tables or fields",
	"A-IND":   "A-IND: the induction over histories (every mutator preserves the invariant => it holds in every reachable state) is a meta-argument, not machine-checked",
}

func cmdCheck(repo, prop, tier string) int {
	t0 := time.Now()
	seed := int64(0)
	if s := os.Getenv("VERIF_SEED"); s != "" {
		seed, _ = strconv.ParseInt(s, 10, 64)
	}
	if t := os.Getenv("VERIF_TIER"); t != "" && tier == "" {
		tier = t
	}
	if tier == "" {
		tier = "quick"
	}
	broken := func(format string, a ...interface{}) int {
		fmt.Printf("BROKEN property=%s %s\n", prop, fmt.Sprintf(format, a...))
		return 2
	}
	e, err := loadEngine(repo)
	if err != nil {
		return broken("load: %v", err)
	}
	cs, err := loadContracts(filepath.Join(repo, "verif_contracts.go"))
	if err != nil {
		return broken("contracts: %v", err)
	}
	e.contracts = cs
	e.resolveRenamed()
	if e.solver, err = newSolver(); err != nil {
		return broken("solver: %v", err)
	}
	defer e.solver.cleanup()
	known, err := loadKnown()
	if err != nil {
		return broken("known_findings.json: %v", err)
	}
	baseline, err := loadBaseline()
	if err != nil {
		return broken("obligations.baseline: %v", err)
	}
	e.known = known
	e.prop = prop

	var all []*Obligation
	var fnInfo []map[string]interface{}
	totalPaths := 0
	unmodelled := map[string]int{}
	for _, fnn := range cs.order {
		ct := cs.fns[fnn]
		has := false
		for _, cl := range ct.allClauses() {
			if hasProp(cl.Props, prop) {
				has = true
				break
			}
		}
		if !has {
			continue
		}
		r := e.verifyFunction(ct, prop, tier)
		debug.FreeOSMemory() // thousands of path states per large function: give the memory back before the next one
		totalPaths += r.Paths
		for k, v := range r.Unmodel {
			unmodelled[k] += v
		}
		fnInfo = append(fnInfo, map[string]interface{}{"function": ct.Fn, "paths": r.Paths, "exits": r.ByKind,
			"code_fingerprint": r.Finger, "seconds": round2(r.Seconds)})
		for _, o := range r.Obls {
			// structural obligations belong to every property of the function; contract clauses to their tags
			if len(o.Props) == 0 || hasProp(o.Props, prop) {
				all = append(all, o)
			}
		}
		for _, n := range r.Notes {
			fmt.Printf("NOTE %s: %s\n", ct.Short, n)
		}
	}
	if len(all) == 0 {
		return broken("no obligations generated (vacuous check)")
	}
	// verdicts
	exit := 0
	violations := 0
	discharged := 0
	bySolver := map[string]int{}
	maxSec, totSec := 0.0, 0.0
	var samples []map[string]interface{}
	var knownLines []string
	seen := map[string]bool{}
	os.MkdirAll(filepath.Join(outRoot(), "replays", prop), 0755)
	// replay: concrete demonstrations (known-finding demos, corpus tests) attributed to the failed obligations are run
	// against the real code through an overlay; an obligation with a failing demonstration has a failing input
	{
		var failed []*Obligation
		for _, o := range all {
			if o.Status != "discharged" && o.Status != "broken" {
				if kf := known.match(prop, o.ID); kf != nil && kf.Status == "open" {
					continue
				}
				failed = append(failed, o)
			}
		}
		if len(failed) > 0 && os.Getenv("ROSVC_NOREPLAY") == "" {
			replayCorpus(repo, prop, failed, known)
			replayDifferential(repo, failed)
		}
	}
	var boundedList []map[string]interface{}
	var knownOpen []map[string]interface{}
	printed := map[string]bool{}
	nBounded := 0
	for _, o := range all {
		if o.Bounded != "" {
			nBounded++
			boundedList = append(boundedList, map[string]interface{}{"obligation": o.ID, "bound": o.Bounded, "status": o.Status})
		}
	}
	for _, o := range all {
		seen[o.ID] = true
		totSec += o.Seconds
		if o.Seconds > maxSec {
			maxSec = o.Seconds
		}
		switch o.Status {
		case "discharged":
			if o.Bounded != "" {
				bySolver["bounded(not counted as proved)"]++
				break
			}
			discharged++
			s := o.Solver
			if s == "" {
				s = "folded"
			}
			bySolver[s]++
		case "broken":
			fmt.Printf("BROKEN property=%s obligation=%s %s\n", prop, o.ID, o.Detail)
			if exit < 2 {
				exit = 2
			}
		default:
			// known finding?
			if kf := known.match(prop, o.ID); kf != nil && kf.Status == "open" {
				if o.OutsideRegion == "discharged" || kf.Region == "" {
					knownLines = append(knownLines, fmt.Sprintf("KNOWN-FINDING: property=%s %s %s", prop, o.ID, kf.What))
					// an open finding is neither an obligation discharged nor a new violation: it is listed on its own
					knownOpen = append(knownOpen, map[string]interface{}{"obligation": o.ID, "status": o.Status, "what": kf.What})
					bySolver["known-finding(not discharged, not counted)"]++
					continue
				}
			}
			violations++
			if printed[o.ID] {
				// the same clause failed again while another function that executes this code in place was verified
				continue
			}
			printed[o.ID] = true
			path := e.writeReplay(prop, o, tier)
			suffix := ""
			if !o.Replayed {
				suffix = " no-failing-input-found"
			}
			fmt.Printf("VIOLATION property=%s replay=%s%s\n", prop, path, suffix)
			fmt.Printf("  obligation %s (%s) %s: %s\n", o.ID, o.Status, o.Pos, truncate(o.Clause, 160))
			if exit < 1 {
				exit = 1
			}
		}
		if len(samples) < 12 {
			samples = append(samples, map[string]interface{}{"obligation": o.ID, "function": o.Fn, "kind": o.Kind,
				"clause": o.Clause, "contract_pos": o.Pos, "path_vcs": o.Paths, "folded_true": o.Trivial,
				"status": o.Status, "solver": o.Solver, "seconds": round2(o.Seconds)})
		}
	}
	for _, l := range knownLines {
		fmt.Println(l)
	}
	// vacuity floor: every baseline obligation must have been generated
	var missing []string
	for id := range baseline[prop] {
		if !seen[id] {
			missing = append(missing, id)
		}
	}
	sort.Strings(missing)
	for _, id := range missing {
		violations++
		o := &Obligation{ID: id, Status: "undischarged", Kind: "missing", Clause: "obligation of the committed baseline was not generated on this tree",
			Detail: "the function or clause that carried it no longer resolves"}
		path := e.writeReplay(prop, o, tier)
		fmt.Printf("VIOLATION property=%s replay=%s no-failing-input-found\n", prop, path)
		fmt.Printf("  obligation %s is listed in obligations.baseline but was not generated\n", id)
		if exit < 1 {
			exit = 1
		}
	}
	// evidence
	var assumptions []string
	for _, k := range []string{"A-SSA", "A-SQL", "A-DRV", "A-TXN", "A-BUSY", "A-JSON", "A-MUTEX", "A-ALIAS", "A-INT", "A-LOG", "A-EXT", "A-IND"} {
		assumptions = append(assumptions, assumptionsText[k])
	}
	if nr, ok := notReached[prop]; ok {
		assumptions = append([]string{"NOT REACHED by this check: " + nr}, assumptions...)
	}
	for _, fnn := range cs.order {
		if cs.fns[fnn].Flags["trusted"] != "" {
			assumptions = append(assumptions, "TRUSTED STUB (contract assumed, body not verified): "+fnn)
		}
	}
	var um []string
	for k, v := range unmodelled {
		um = append(um, fmt.Sprintf("%s x%d", k, v))
	}
	sort.Strings(um)
	var kfs []string
	for _, kf := range known.Findings {
		if kf.Property == prop {
			kfs = append(kfs, fmt.Sprintf("%s: %s %s %s", kf.Status, kf.Obligation, kf.Commit, kf.What))
		}
	}
	ev := map[string]interface{}{
		"property_id": prop, "tier": tier, "seed": seed, "level": "proof",
		"coverage": map[string]interface{}{
			"obligations": len(all) + len(missing) - nBounded - len(knownOpen), "discharged": discharged,
			"known_findings_open": knownOpen,
			"bounded":     boundedList,
			"checker_cmd": fmt.Sprintf("/verif/bin/rosvc check --property %s --tier %s", prop, tier),
			"trusted_base": []string{"rosvc VC generator (/verif/engine)", "go/ssa x/tools v0.29.0", "z3 5.1.0 (z3-new), cvc5 1.0.3, z3 4.8.12",
				"SQL-subset semantics (A-SQL)", "models of database/sql, sync, time, encoding/json, container/list (extern.go)"},
			"functions_under_contract": fnInfo,
			"path_vcs":                 totalPaths,
			"by_solver":                bySolver,
			"solver_time_s":            map[string]interface{}{"total": round2(totSec), "max_obligation": round2(maxSec)},
			"samples":                  samples,
			"known_findings":           kfs,
			"havocked_externals":       um,
			"sql_statements_interpreted": len(e.sqlTexts),
			"explanation":              "one obligation per (function under contract, contract clause); each is discharged when the solver answers unsat for the negated clause on every path of the function's SSA",
		},
		"assumptions": assumptions,
		"wall_s":      round2(time.Since(t0).Seconds()),
		"violations":  violations,
	}
	os.MkdirAll(filepath.Join(outRoot(), "evidence"), 0755)
	data, _ := json.MarshalIndent(ev, "", " ")
	if err := os.WriteFile(filepath.Join(outRoot(), "evidence", prop+".json"), data, 0644); err != nil {
		return broken("evidence: %v", err)
	}
	fmt.Printf("property=%s tier=%s obligations=%d discharged=%d bounded=%d violations=%d paths=%d wall=%.1fs\n",
		prop, tier, len(all)+len(missing)-nBounded-len(knownOpen), discharged, nBounded, violations, totalPaths, time.Since(t0).Seconds())
	return exit
}

func round2(f float64) float64 { return float64(int(f*100+0.5)) / 100 }

func (kf *KnownFile) match(prop, obl string) *KnownFinding {
	for i := range kf.Findings {
		f := &kf.Findings[i]
		if f.Property == prop && f.Obligation == obl {
			return f
		}
	}
	return nil
}

// writeReplay stores everything known about a failed obligation.
func (e *Engine) writeReplay(prop string, o *Obligation, tier string) string {
	dir := filepath.Join(outRoot(), "replays", prop)
	os.MkdirAll(dir, 0755)
	base := filepath.Join(dir, sanitize(o.ID))
	smtPath := ""
	if o.FailSMT != "" {
		smtPath = base + ".smt2"
		os.WriteFile(smtPath, []byte(o.FailSMT), 0644)
	}
	rec := map[string]interface{}{
		"property": prop, "obligation": o.ID, "function": o.Fn, "kind": o.Kind, "clause": o.Clause, "contract_pos": o.Pos,
		"status": o.Status, "solver_output": o.Detail, "model": o.Model, "path": o.FailPath, "smt2": smtPath,
		"variant": o.Variant, "replayed_on_real_code": o.Replayed, "replay_observation": o.ReplayObs, "concrete_tests": o.ReplayTests,
	}
	data, _ := json.MarshalIndent(rec, "", " ")
	path := base + ".json"
	os.WriteFile(path, data, 0644)
	return path
}

var notReached = loadNotReached()

func loadNotReached() map[string]string {
	out := map[string]string{}
	if data, err := os.ReadFile(filepath.Join(verifRoot, "notreached.json")); err == nil {
		json.Unmarshal(data, &out)
	}
	return out
}

// ---------------------------------------------------------------------------
// Replay corpus: /verif/replay_corpus/index.json lists concrete tests (package rosmar, injected with -overlay, nothing
// is written to the repository) together with the obligations each one witnesses. When one of those obligations is
// refuted, the test is run on the tree under check; if it fails, the obligation has a failing input on the real code.

type corpusEntry struct {
	File        string   `json:"file"`
	Run         string   `json:"run"`
	Property    string   `json:"property"`
	Obligations []string `json:"obligations"`
	What        string   `json:"what,omitempty"`
}

func replayCorpus(repo, prop string, failed []*Obligation, known *KnownFile) {
	var entries []corpusEntry
	if data, err := os.ReadFile(filepath.Join(verifRoot, "replay_corpus", "index.json")); err == nil {
		json.Unmarshal(data, &entries)
	}
	for _, kf := range known.Findings {
		f := strings.Fields(kf.Demo)
		if len(f) == 2 {
			entries = append(entries, corpusEntry{File: f[0], Run: "^" + f[1] + "$", Property: kf.Property, Obligations: []string{kf.Obligation}, What: kf.What})
		}
	}
	byObl := map[string][]*Obligation{}
	for _, o := range failed {
		byObl[o.ID] = append(byObl[o.ID], o)
	}
	type runKey struct{ file, run string }
	done := map[runKey]string{}
	var mu sync.Mutex
	var jobs []corpusEntry
	for _, en := range entries {
		hit := false
		for _, id := range en.Obligations {
			if len(byObl[id]) > 0 {
				hit = true
			}
		}
		if hit {
			jobs = append(jobs, en)
		}
	}
	if len(jobs) > 12 {
		jobs = jobs[:12]
	}
	tmp, err := os.MkdirTemp("", "rosvc-replay")
	if err != nil {
		return
	}
	defer os.RemoveAll(tmp)
	parallel(len(jobs), 6, func(i int) {
		en := jobs[i]
		ov := filepath.Join(tmp, fmt.Sprintf("ov%d.json", i))
		os.WriteFile(ov, []byte(fmt.Sprintf(`{"Replace":{"%s/zz_rosvc_replay_test.go":"%s"}}`, repo, en.File)), 0644)
		cmd := exec.Command("go", "test", "-overlay", ov, "-vet=off", "-count=1", "-timeout", "120s", "-run", en.Run, ".")
		cmd.Dir = repo
		cmd.Env = append(os.Environ(), "GOFLAGS=-mod=mod", "GOPROXY=off", "GOSUMDB=off", "GOTOOLCHAIN=local")
		out, err := cmd.CombinedOutput()
		res := ""
		if err != nil && strings.Contains(string(out), "--- FAIL") {
			res = string(out)
			if len(res) > 3000 {
				res = res[:3000] + "..."
			}
		}
		mu.Lock()
		done[runKey{en.File, en.Run}] = res
		mu.Unlock()
	})
	for _, en := range jobs {
		res := done[runKey{en.File, en.Run}]
		if res == "" {
			continue
		}
		for _, id := range en.Obligations {
			for _, o := range byObl[id] {
				o.Replayed = true
				o.ReplayTests = append(o.ReplayTests, map[string]string{"file": en.File, "run": en.Run})
				o.ReplayObs += fmt.Sprintf("concrete test %s -run %s FAILS on the tree under check (go test -overlay, nothing written to the repository):\n%s\n", en.File, en.Run, res)
			}
		}
	}
}

// cmdReplay re-runs what a replay file records: it prints the failed obligation, the verifier's model and path, and
// runs the concrete tests listed in the file against the repository (exit 1 if one of them fails there now).
func cmdReplay(repo, path string) int {
	data, err := os.ReadFile(path)
	if err != nil {
		fmt.Println("cannot read", path, err)
		return 2
	}
	var rec struct {
		Property   string              `json:"property"`
		Obligation string              `json:"obligation"`
		Function   string              `json:"function"`
		Clause     string              `json:"clause"`
		Pos        string              `json:"contract_pos"`
		Status     string              `json:"status"`
		Model      interface{}         `json:"model"`
		Path       string              `json:"path"`
		SMT        string              `json:"smt2"`
		Tests      []map[string]string `json:"concrete_tests"`
	}
	if err := json.Unmarshal(data, &rec); err != nil {
		fmt.Println("bad replay file:", err)
		return 2
	}
	fmt.Printf("property %s, obligation %s (%s) of %s\n  clause %s: %s\n", rec.Property, rec.Obligation, rec.Status, rec.Function, rec.Pos, rec.Clause)
	fmt.Printf("verifier's counterexample (symbolic inputs): %v\nfailing path:\n%s\n", rec.Model, rec.Path)
	if rec.SMT != "" {
		fmt.Printf("solver query: %s (re-run with: z3-new %s)\n", rec.SMT, rec.SMT)
	}
	if len(rec.Tests) == 0 {
		fmt.Println("no concrete failing input was found for this obligation (no-failing-input-found)")
		return 0
	}
	tmp, err := os.MkdirTemp("", "rosvc-replay")
	if err != nil {
		return 2
	}
	defer os.RemoveAll(tmp)
	exit := 0
	for i, t := range rec.Tests {
		if t["kind"] == "differential" {
			diffs, total, commit, err := diffScenarios(repo)
			if err != nil {
				fmt.Println("differential replay:", err)
				continue
			}
			fmt.Printf("== differential replay: %d scenarios on %s and on the verified tree %s: %d differ\n", total, repo, commit, len(diffs))
			for _, d := range diffs {
				fmt.Println(d)
			}
			if len(diffs) > 0 {
				exit = 1
			}
			continue
		}
		ov := filepath.Join(tmp, fmt.Sprintf("ov%d.json", i))
		os.WriteFile(ov, []byte(fmt.Sprintf(`{"Replace":{"%s/zz_rosvc_replay_test.go":"%s"}}`, repo, t["file"])), 0644)
		cmd := exec.Command("go", "test", "-overlay", ov, "-vet=off", "-count=1", "-timeout", "120s", "-run", t["run"], "-v", ".")
		cmd.Dir = repo
		cmd.Env = append(os.Environ(), "GOFLAGS=-mod=mod", "GOPROXY=off", "GOSUMDB=off", "GOTOOLCHAIN=local")
		out, err := cmd.CombinedOutput()
		fmt.Printf("== go test -run %s (%s)\n%s\n", t["run"], t["file"], string(out))
		if err != nil {
			exit = 1
		}
	}
	return exit
}

// ---------------------------------------------------------------------------
// Differential replay: /verif/replay/diff_harness_test.go runs a fixed grid of concrete scenarios over the public
// key-value / xattr / sub-document API and records what each one observably did. It is run (through -overlay) on the
// tree under check and on the last verified tree (/verif/verified_commit, materialised with `git archive` in a scratch
// directory). A scenario whose outcome differs is a concrete input on which the tree under check departs from the
// behaviour that was proved; it is attached to the failed obligations of the functions that implement that API.

var kvFamily = []string{"getRaw", "exists", "GetExpiry", "add", "set", "remove", "GetAndTouchRaw", "Incr", "WriteCas", "Update", "writeWithMeta",
	"writeWithXattrs", "wwx.", "storeDocument", "removeXattrs", "removeUserXattrs", "DeleteWithXattrs", "DeleteSubDocPaths", "WriteUpdateWithXattrs",
	"subdocWrite", "evalSubdocPath", "upsert", "macros.", "expandXattrMacros", "getRawWithXattrs", "GetWithXattrs", "GetXattrs", "withNewCas", "inTransaction",
	"postNewEvent", "postEvent", "asFeedEvent", "setLastCas", "checkCasXattr", "Exists", "GetRaw", "AddRaw", "Add.", "SetRaw", "Set.", "Remove", "Delete",
	"Touch", "touch.", "incr.", "SetWithMeta", "DeleteWithMeta", "SubdocInsert", "WriteSubDoc", "SetXattrs", "RemoveXattrs", "UpdateXattrs",
	"WriteWithXattrs", "WriteTombstone", "WriteResurrection", "UpdateXattrDeleteBody", "schedule", "setNext", "hlc."}

type diffOutcome struct {
	Scenario string   `json:"scenario"`
	Op       string   `json:"op"`
	Pre      string   `json:"pre"`
	Result   string   `json:"result"`
	Row      string   `json:"row"`
	Sibling  string   `json:"sibling"`
	Events   []string `json:"events"`
}

func runDiffHarness(dir, out string) error {
	ov := out + ".ov.json"
	os.WriteFile(ov, []byte(fmt.Sprintf(`{"Replace":{"%s/zz_rosvc_diff_test.go":"%s"}}`, dir, filepath.Join(verifRoot, "replay", "diff_harness_test.go"))), 0644)
	cmd := exec.Command("go", "test", "-overlay", ov, "-vet=off", "-count=1", "-timeout", "180s", "-run", "^TestRosvcDifferentialScenarios$", ".")
	cmd.Dir = dir
	cmd.Env = append(os.Environ(), "GOFLAGS=-mod=mod", "GOPROXY=off", "GOSUMDB=off", "GOTOOLCHAIN=local", "ROSVC_DIFF_OUT="+out)
	if b, err := cmd.CombinedOutput(); err != nil {
		if _, serr := os.Stat(out); serr != nil {
			return fmt.Errorf("%v: %s", err, truncate(string(b), 300))
		}
	}
	return nil
}

func replayDifferential(repo string, failed []*Obligation) {
	var fam []*Obligation
	for _, o := range failed {
		for _, k := range kvFamily {
			if strings.Contains(o.ID, k) || strings.Contains(o.Fn, k) {
				fam = append(fam, o)
				break
			}
		}
	}
	if len(fam) == 0 {
		return
	}
	diffs, total, commit, err := diffScenarios(repo)
	if err != nil || len(diffs) == 0 {
		return
	}
	n := len(diffs)
	if len(diffs) > 6 {
		diffs = diffs[:6]
	}
	obs := fmt.Sprintf("differential replay (diff_harness_test.go, %d scenarios run on this tree and on the verified tree %s): %d scenario(s) behave differently; the first ones:\n%s\n",
		total, commit[:min(10, len(commit))], n, strings.Join(diffs, "\n"))
	for _, o := range fam {
		o.Replayed = true
		o.ReplayObs += obs
		o.ReplayTests = append(o.ReplayTests, map[string]string{"file": filepath.Join(verifRoot, "replay", "diff_harness_test.go"), "run": "^TestRosvcDifferentialScenarios$", "kind": "differential"})
	}
}

// diffScenarios runs the harness on the tree at repo and on the verified tree and returns the scenarios that differ.
func diffScenarios(repo string) (diffs []string, total int, commit string, err error) {
	data, err := os.ReadFile(filepath.Join(verifRoot, "verified_commit"))
	if err != nil {
		return nil, 0, "", err
	}
	commit = strings.TrimSpace(string(data))
	tmp, err := os.MkdirTemp("", "rosvc-diff")
	if err != nil {
		return nil, 0, commit, err
	}
	defer os.RemoveAll(tmp)
	base := filepath.Join(tmp, "verified")
	os.MkdirAll(base, 0755)
	if err := exec.Command("sh", "-c", fmt.Sprintf("git -C %s archive %s | tar -x -C %s", repo, commit, base)).Run(); err != nil {
		return nil, 0, commit, fmt.Errorf("the verified commit %s is not in this repository", commit)
	}
	if _, err := os.Stat(filepath.Join(base, "go.mod")); err != nil {
		return nil, 0, commit, fmt.Errorf("the verified commit %s is not in this repository", commit)
	}
	cur, ref := filepath.Join(tmp, "cur.json"), filepath.Join(tmp, "ref.json")
	var e1, e2 error
	var wg sync.WaitGroup
	wg.Add(2)
	go func() { defer wg.Done(); e1 = runDiffHarness(repo, cur) }()
	go func() { defer wg.Done(); e2 = runDiffHarness(base, ref) }()
	wg.Wait()
	if e1 != nil {
		return nil, 0, commit, e1
	}
	if e2 != nil {
		return nil, 0, commit, e2
	}
	var a, b []diffOutcome
	d1, _ := os.ReadFile(cur)
	d2, _ := os.ReadFile(ref)
	if json.Unmarshal(d1, &a) != nil || json.Unmarshal(d2, &b) != nil {
		return nil, 0, commit, fmt.Errorf("the harness wrote no outcomes")
	}
	refBy := map[string]diffOutcome{}
	for _, o := range b {
		refBy[o.Scenario] = o
	}
	for _, o := range a {
		r, ok := refBy[o.Scenario]
		if !ok {
			continue
		}
		if o.Result != r.Result || o.Row != r.Row || o.Sibling != r.Sibling || strings.Join(o.Events, ";") != strings.Join(r.Events, ";") {
			diffs = append(diffs, fmt.Sprintf("scenario %q\n  this tree     : result=%s | row: %s | sibling: %s | events: %v\n  verified tree : result=%s | row: %s | sibling: %s | events: %v",
				o.Scenario, o.Result, o.Row, o.Sibling, o.Events, r.Result, r.Row, r.Sibling, r.Events))
		}
	}
	return diffs, len(a), commit, nil
}
