package main

func cmdCheck(repo, prop, tier string) int { return 2 }
