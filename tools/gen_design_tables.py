#!/usr/bin/env python3
"""Fills the generated blocks of DESIGN.md section 11 (findings, seeds -> obligations, benign corpus, not-reached)
from the files the machinery maintains: known_findings.json, seeded/*/detected.json + meta.json, benign/results.txt,
notreached.json."""
import json, glob, os, re
root = '/verif'
s = open(root + '/DESIGN.md').read()

def block(name, text):
    global s
    b, e = '<!-- BEGIN:%s -->' % name, '<!-- END:%s -->' % name
    if '@%s@' % name in s:
        s = s.replace('@%s@' % name, b + '\n' + text + '\n' + e)
    else:
        i, j = s.index(b), s.index(e)
        s = s[:i] + b + '\n' + text + '\n' + s[j:]

kf = json.load(open(root + '/known_findings.json'))['findings']
rows = ['| finding | property | obligation that exposed it | fix commit | what failed |', '|---|---|---|---|---|']
for f in kf:
    if f['status'] != 'fixed':
        continue
    m = re.match(r'(F\d+): (.*)', f['what'])
    rows.append('| %s | %s | `%s` | `%s` | %s |' % (m.group(1) if m else '', f['property'], f['obligation'], f.get('commit', ''), (m.group(2) if m else f['what'])))
block('FINDINGS', '\n'.join(rows))

rows = ['| seed | what was changed (abridged) | caught by (obligations of the property\'s check) |', '|---|---|---|']
det = miss = 0
for d in sorted(glob.glob(root + '/seeded/C*/')):
    sid = os.path.basename(d.rstrip('/'))
    try:
        meta = json.load(open(d + 'meta.json'))
    except Exception:
        continue
    what = re.sub(r'\s+', ' ', meta.get('what_changed', ''))[:230].replace('|', '/')
    obls = []
    if os.path.exists(d + 'detected.json'):
        obls = json.load(open(d + 'detected.json')).get('obligations', [])
    if os.path.exists(d + 'NEUTRALISED'):
        rows.append('| %s | %s | (neutralised) %s |' % (sid, what, open(d + 'NEUTRALISED').read().strip()))
        continue
    if obls:
        det += 1
        caught = ', '.join('`%s`' % o for o in obls[:4]) + (' (+%d)' % (len(obls) - 4) if len(obls) > 4 else '')
    else:
        miss += 1
        caught = '**not caught** - see 11.7'
    rows.append('| %s | %s | %s |' % (sid, what, caught))
rows.append('')
rows.append('%d seeded changes, %d caught by the check of the property they break, %d not caught.' % (det + miss, det, miss))
block('SEEDS', '\n'.join(rows))

res = root + '/benign/results.txt'
txt = 'Last full run: not recorded yet.'
if os.path.exists(res):
    lines = [l.strip() for l in open(res) if l.startswith(('QUIET', 'ALARM', 'NOAPPLY'))]
    q = sum(1 for l in lines if l.startswith('QUIET'))
    txt = 'Last full run (`benign/results.txt`): %d of %d patches quiet.' % (q, len(lines))
    bad = [l for l in lines if not l.startswith('QUIET')]
    if bad:
        txt += ' Not quiet: ' + '; '.join(bad)
block('BENIGN', txt)

rows = ['| property | functions under contract | obligations | discharged | bounded (not counted) | open findings | path VCs | wall (quick) |', '|---|---|---|---|---|---|---|---|']
for f in sorted(glob.glob(root + '/evidence/C*.json')):
    ev = json.load(open(f))
    c = ev['coverage']
    rows.append('| %s | %d | %d | %d | %d | %d | %d | %.0f s |' % (ev['property_id'], len(c.get('functions_under_contract', [])), c.get('obligations', 0), c.get('discharged', 0), len(c.get('bounded') or []), len(c.get('known_findings_open') or []), c.get('path_vcs', 0), ev.get('wall_s', 0)))
block('STATUS', '\n'.join(rows))

import subprocess
n = sum(1 for l in open('/repo/verif_contracts.go') if l.startswith('//@ fn '))
block('FNCOUNT', str(n))

def counts(path, col=1):
    c = {}
    if os.path.exists(path):
        for l in open(path):
            p = l.split()
            if len(p) > col:
                c[p[col]] = c.get(p[col], 0) + 1
    return c
m = root + '/mutation/'
def counts_files(paths, keep=None):
    c = {}
    for path in paths:
        if not os.path.exists(path):
            continue
        for l in open(path):
            p = l.split()
            if len(p) > 2 and (keep is None or p[2].split(':')[0] in keep):
                c[p[1]] = c.get(p[1], 0) + 1
    return c
p1, p2, p2b4, p3 = counts(m + 'phase1.txt'), counts(m + 'phase2.txt'), counts(m + 'phase2_before_strengthening.txt'), counts(m + 'phase3_same.txt')
early = {'bucket.go', 'collection+query.go', 'designdoc.go'}   # phase 1b ids of the other files went stale when the F25 fix shifted them; those files were redone as phase 1c
late = {'views.go', 'payload.go', 'queryable.go'}
p1b = counts_files([m + 'phase1b.txt'], early)
for k, v in counts_files([m + 'phase1c.txt'], late).items():
    p1b[k] = p1b.get(k, 0) + v
p2b = counts_files([m + 'phase2b.txt'], early)
for k, v in counts_files([m + 'phase2c.txt'], late).items():
    p2b[k] = p2b.get(k, 0) + v
lines = []
if p1:
    n1 = sum(p1.values())
    lines.append('* **Phase 1** (`mutation/phase1.txt`, the key-value, xattr, sub-document, feed, queue, clock, expiry and registry files): %d mutants; %d killed by the pinned suite, %d do not build, %d pass the suite and change no observable result of any of the 665 scenarios of the differential harness, %d pass the suite and change some scenario ("survivors": real behaviour changes the suite does not see).' % (n1, p1.get('killed-by-suite', 0), p1.get('nobuild', 0), p1.get('same', 0), p1.get('survivor', 0)))
if p2:
    lines.append('* **Phase 2** (`mutation/phase2.txt`): the survivors against the contracts (every function under contract the mutant can influence, all clauses): %d of %d caught when first run (`phase2_before_strengthening.txt`), **%d of %d** after the clauses listed below were added.' % (p2b4.get('CAUGHT', 0), sum(p2b4.values()), p2.get('CAUGHT', 0), sum(p2.values())))
if p3:
    lines.append('* **Phase 3** (`mutation/phase3_same.txt`): the %d mutants the harness cannot tell from the original, against the contracts: %d flagged, %d not (as it should be for equivalent mutants).' % (sum(p3.values()), p3.get('CAUGHT', 0), p3.get('MISSED', 0)))
if p1b:
    lines.append('* **Phase 1b / 2b** (`mutation/phase1b.txt`, `phase1c.txt`, `phase2b.txt`, `phase2c.txt`; bucket.go, views.go, designdoc.go, collection+query.go, payload.go, queryable.go - files the harness says little about, so every mutant that passes the suite goes to the contracts): %d mutants, %d killed by the suite, %d do not build, %d pass the suite; of those that pass, %d were flagged by the contracts and %d were not (%d not run: the retry loop of `inTransaction`, whose mutants re-verify every writer and take ten minutes each). The unflagged ones were read one by one: code without a contract by decision (URL parsing, `OpenBucketIn`, logging, retry back-off, the Close of the query iterator), the map/reduce pipeline and `ProcessParsed` (11.7, not reached), `payload` methods on shapes no caller constructs (raw payloads), over-eager re-indexing (harmless), and cache handling that `findView.reuses-only-same-source` makes harmless. The PutDDoc unchanged-check (a changed design document silently not written) and the open modes of OpenBucket were real blind spots and got clauses.' % (sum(p1b.values()), p1b.get('killed-by-suite', 0), p1b.get('nobuild', 0), p1b.get('passes-suite', 0), p2b.get('CAUGHT', 0), p2b.get('MISSED', 0), p1b.get('passes-suite', 0) - sum(p2b.values())))
block('MUTATION', '\n'.join(lines))

nr = json.load(open(root + '/notreached.json'))
block('NOTREACHED', '\n'.join('* **%s** %s' % (k, v) for k, v in sorted(nr.items())))
open(root + '/DESIGN.md', 'w').write(s)
print('DESIGN.md tables regenerated: %d seeds (%d caught)' % (det + miss, det))
