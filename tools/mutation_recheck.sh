#!/bin/sh
# usage: mutation_recheck.sh <mutant-id>...  -- re-runs phase 2 for the given mutants against /repo's current working tree
# (HEAD plus uncommitted contract edits); prints "<id> CAUGHT|MISSED <site> <operator> [:: obligations]".
jq -r '.findings[] | select(.status=="open") | .obligation' /verif/known_findings.json | sort -u > /tmp/rosvc_known_open.txt
export GOFLAGS=-mod=mod GOPROXY=off GOSUMDB=off GOTOOLCHAIN=local
OUT=/verif/mutation
B=$(mktemp -d /tmp/mutbase.XXXXXX); git -C /repo archive HEAD | tar -x -C $B; cp /repo/verif_contracts.go $B/
one() {
  id=$1; desc=$(cat $OUT/points.txt $OUT/points_b.txt $OUT/points_c.txt 2>/dev/null | grep "^$id " | head -1 | cut -d" " -f2-)
  W=$(mktemp -d /tmp/mut2.XXXXXX); cp -r $B/. $W/
  /verif/bin/mutate -dir $W -apply $id >/dev/null 2>&1
  A=$(/verif/bin/rosvc affected -repo $W -base $B 2>/dev/null | grep '^AFFECTED ' | tail -1 | cut -d' ' -f2-)
  case "$A" in
    NONE) echo "$id MISSED $desc (no function under contract is affected)"; rm -rf $W; return;;
    "") echo "$id INCOMPLETE $desc"; rm -rf $W; return;;
    ALL) ONLY="";;
    *) ONLY="-only $A";;
  esac
  raw=$(timeout 1500 /verif/bin/rosvc fn -repo $W $ONLY 2>&1)
  if ! echo "$raw" | grep -q "^SWEEP-DONE"; then echo "$id INCOMPLETE $desc"; rm -rf $W; return; fi
  out=$(echo "$raw" | grep -E "^   (refuted|undischarged|broken|unknown|timeout) " | grep -v -F -f /tmp/rosvc_known_open.txt | awk '{print $2}' | head -4 | tr '\n' ' ')
  if [ -z "$out" ]; then echo "$id MISSED $desc"; else echo "$id CAUGHT $desc :: $out"; fi
  rm -rf $W
}
n=0
for id in "$@"; do
  one $id &
  n=$((n+1)); if [ $((n % ${PAR:-4})) = 0 ]; then wait; fi
done
wait
rm -rf $B
