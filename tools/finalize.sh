#!/bin/sh
# Brings the derived files of /verif in line with /repo's HEAD: verified_commit, fingerprints.json, MANIFEST hooks,
# evidence/*.json (every registered quick check is run on /repo itself, one after the other), DESIGN.md tables.
export GOFLAGS=-mod=mod GOPROXY=off GOSUMDB=off GOTOOLCHAIN=local
cd /verif
[ -z "$(git -C /repo status --porcelain)" ] || { echo "/repo is dirty"; exit 1; }
git -C /repo rev-parse HEAD > verified_commit
bin/rosvc fingerprints > fingerprints.json.new && mv fingerprints.json.new fingerprints.json
python3 - <<'P'
import json, subprocess
m = json.load(open('/verif/MANIFEST.json'))
commits = subprocess.run(['git', '-C', '/repo', 'log', '--reverse', '--format=%h %s', '--', 'verif_contracts.go'], capture_output=True, text=True).stdout.strip().split('\n')
m['hooks']['source_commits'] = [c.split()[0] for c in commits if c]
json.dump(m, open('/verif/MANIFEST.json', 'w'), indent=1)
print(len(m['hooks']['source_commits']), 'hook commits')
P
rc=0
for p in $(jq -r '.checks[].property_id' MANIFEST.json); do
  out=$(bin/rosvc check --property $p --tier quick 2>&1); e=$?
  echo "$p exit=$e $(echo "$out" | tail -1)"
  echo "$out" | grep -E "^(VIOLATION|KNOWN-FINDING|BROKEN)" | cut -c1-200
  [ $e = 0 ] || rc=1
done
python3 tools/gen_design_tables.py
exit $rc
