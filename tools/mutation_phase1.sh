#!/bin/sh
# Phase 1 of the mutation measurement: classify every mutant of /verif/bin/mutate as
#   nobuild | killed-by-suite | same (no difference in the 665-scenario differential harness) | survivor (suite passes, harness differs)
# Results: /verif/mutation/phase1.txt  ("<id> <class> <file:line:col> <operator>").  Scratch copies live under /tmp.
export GOFLAGS=-mod=mod GOPROXY=off GOSUMDB=off GOTOOLCHAIN=local
OUT=/verif/mutation; mkdir -p $OUT
B=$(mktemp -d /tmp/mutbase.XXXXXX); git -C /repo archive HEAD | tar -x -C $B
printf '{"Replace":{"%s/zz_rosvc_diff_test.go":"/verif/replay/diff_harness_test.go"}}' $B > $B.ov.json
(cd $B && ROSVC_DIFF_OUT=$OUT/base.json go test -overlay $B.ov.json -vet=off -count=1 -timeout 180s -run '^TestRosvcDifferentialScenarios$' . >/dev/null 2>&1)
/verif/bin/mutate -dir $B -list | grep -E " (collection\.go|collection\+xattrs\.go|collection\+subdoc\.go|feeds\.go|queue\.go|hlc\.go|expiry_manager\.go|bucket_registry\.go|utils\.go|bucket_api\.go):" > $OUT/points.txt
one() {
  id=$1; desc=$(grep "^$id " $OUT/points.txt | cut -d' ' -f2-)
  W=$(mktemp -d /tmp/mut.XXXXXX); cp -r $B/. $W/
  /verif/bin/mutate -dir $W -apply $id >/dev/null 2>&1
  if ! (cd $W && go build ./... >/dev/null 2>&1); then echo "$id nobuild $desc"; rm -rf $W; return; fi
  if ! (cd $W && timeout 90 go test -vet=off -count=1 -timeout 60s ./... >/dev/null 2>&1); then echo "$id killed-by-suite $desc"; rm -rf $W; return; fi
  printf '{"Replace":{"%s/zz_rosvc_diff_test.go":"/verif/replay/diff_harness_test.go"}}' $W > $W.ov.json
  (cd $W && ROSVC_DIFF_OUT=$W.out.json timeout 300 go test -overlay $W.ov.json -vet=off -count=1 -timeout 180s -run '^TestRosvcDifferentialScenarios$' . >/dev/null 2>&1)
  if [ -f $W.out.json ] && cmp -s $W.out.json $OUT/base.json; then echo "$id same $desc"; else echo "$id survivor $desc"; fi
  rm -rf $W $W.ov.json $W.out.json
}
n=0
: > $OUT/phase1.txt
for id in $(cut -d' ' -f1 $OUT/points.txt); do
  one $id >> $OUT/phase1.txt &
  n=$((n+1)); if [ $((n % 12)) = 0 ]; then wait; fi
done
wait
rm -rf $B $B.ov.json
cut -d' ' -f2 $OUT/phase1.txt | sort | uniq -c
