#!/bin/sh
# Phase 2 of the mutation measurement: for every survivor of phase 1 (passes the suite, changes the observable behaviour of
# some harness scenario) run the sweep of the functions under contract it can influence. Results: /verif/mutation/phase2.txt
# ("<id> CAUGHT|MISSED <file:line:col> <operator> [first failed obligations]").
jq -r '.findings[] | select(.status=="open") | .obligation' /verif/known_findings.json | sort -u > /tmp/rosvc_known_open.txt
export GOFLAGS=-mod=mod GOPROXY=off GOSUMDB=off GOTOOLCHAIN=local
OUT=/verif/mutation
B=$(mktemp -d /tmp/mutbase.XXXXXX); git -C /repo archive HEAD | tar -x -C $B
one() {
  id=$1; desc=$(grep "^$id " $OUT/points.txt | cut -d' ' -f2-)
  W=$(mktemp -d /tmp/mut2.XXXXXX); cp -r $B/. $W/
  /verif/bin/mutate -dir $W -apply $id >/dev/null 2>&1
  A=$(/verif/bin/rosvc affected -repo $W -base $B 2>/dev/null | tail -1)
  case "$A" in
    NONE) echo "$id MISSED $desc (no function under contract is affected)"; rm -rf $W; return;;
    ALL|"") ONLY="";;
    *) ONLY="-only $A";;
  esac
  out=$(timeout 1500 /verif/bin/rosvc fn -repo $W $ONLY 2>&1 | grep -E "^   (refuted|undischarged|broken|unknown|timeout) " | grep -v -F -f /tmp/rosvc_known_open.txt | awk '{print $2}' | head -4 | tr '\n' ' ')
  if [ -z "$out" ]; then echo "$id MISSED $desc"; else echo "$id CAUGHT $desc :: $out"; fi
  rm -rf $W
}
: > $OUT/phase2.txt
n=0
for id in $(grep " survivor " $OUT/phase1.txt | cut -d' ' -f1); do
  one $id >> $OUT/phase2.txt &
  n=$((n+1)); if [ $((n % 3)) = 0 ]; then wait; fi
done
wait
rm -rf $B
cut -d' ' -f2 $OUT/phase2.txt | sort | uniq -c
