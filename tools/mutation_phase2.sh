#!/bin/sh
# Phase 2 of the mutation measurement: every survivor of phase 1 (passes the suite, changes the observable behaviour of
# some harness scenario) against the contracts: the sweep of the functions under contract it can influence.
# Results: /verif/mutation/phase2.txt ("<id> CAUGHT|MISSED|INCOMPLETE <file:line:col> <operator> [:: first failed obligations]").
cd /verif
PAR=${PAR:-3} tools/mutation_recheck.sh $(grep " survivor " mutation/phase1.txt | cut -d' ' -f1) > mutation/phase2.txt
cut -d' ' -f2 mutation/phase2.txt | sort | uniq -c
