module mutate

go 1.21
