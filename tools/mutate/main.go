// mutate: a small source-level mutator used to measure the checks (not part of any registered check).
// usage: mutate -dir <tree> -list            prints "<file>:<line>:<col> <operator> <id>" for every mutation point
//        mutate -dir <tree> -apply <id>      rewrites the file in place with mutation <id> applied
// Operators: comparison and boolean operator replacement, integer literal 0/1 -> 1/0, `x++`/`x += 1` removal of the
// statement, negation of if conditions, replacement of a boolean literal.
package main

import (
	"flag"
	"fmt"
	"go/ast"
	"go/format"
	"go/parser"
	"go/token"
	"os"
	"path/filepath"
	"sort"
	"strings"
)

type point struct {
	file string
	pos  token.Position
	op   string
	do   func()
}

func main() {
	dir := flag.String("dir", ".", "tree")
	list := flag.Bool("list", false, "list mutation points")
	apply := flag.Int("apply", -1, "apply mutation with this id")
	flag.Parse()
	files, _ := filepath.Glob(filepath.Join(*dir, "*.go"))
	sort.Strings(files)
	id := 0
	for _, f := range files {
		base := filepath.Base(f)
		if strings.HasSuffix(base, "_test.go") || base == "verif_contracts.go" || base == "logging.go" {
			continue
		}
		fset := token.NewFileSet()
		af, err := parser.ParseFile(fset, f, nil, parser.ParseComments)
		if err != nil {
			continue
		}
		var pts []point
		add := func(n ast.Node, op string, do func()) {
			pts = append(pts, point{file: f, pos: fset.Position(n.Pos()), op: op, do: do})
		}
		ast.Inspect(af, func(n ast.Node) bool {
			switch x := n.(type) {
			case *ast.BinaryExpr:
				repl := map[token.Token][]token.Token{
					token.EQL: {token.NEQ}, token.NEQ: {token.EQL},
					token.LSS: {token.LEQ, token.GEQ}, token.LEQ: {token.LSS, token.GTR},
					token.GTR: {token.GEQ, token.LEQ}, token.GEQ: {token.GTR, token.LSS},
					token.LAND: {token.LOR}, token.LOR: {token.LAND},
					token.ADD: {token.SUB}, token.SUB: {token.ADD},
				}
				if rs, ok := repl[x.Op]; ok {
					// string concatenation: leave alone
					if x.Op == token.ADD || x.Op == token.SUB {
						if _, ok := x.X.(*ast.BasicLit); ok {
							if x.X.(*ast.BasicLit).Kind == token.STRING {
								return true
							}
						}
						if bl, ok := x.Y.(*ast.BasicLit); ok && bl.Kind == token.STRING {
							return true
						}
					}
					for _, r := range rs {
						r, orig := r, x.Op
						add(x, fmt.Sprintf("%s->%s", orig, r), func() { x.Op = r })
					}
				}
			case *ast.BasicLit:
				if x.Kind == token.INT && (x.Value == "0" || x.Value == "1") {
					nv := "1"
					if x.Value == "1" {
						nv = "0"
					}
					add(x, "int "+x.Value+"->"+nv, func() { x.Value = nv })
				}
			case *ast.Ident:
				if x.Name == "true" || x.Name == "false" {
					nv := "false"
					if x.Name == "false" {
						nv = "true"
					}
					add(x, x.Name+"->"+nv, func() { x.Name = nv })
				}
			case *ast.IfStmt:
				add(x, "negate-if", func() { x.Cond = &ast.UnaryExpr{Op: token.NOT, X: &ast.ParenExpr{X: x.Cond}} })
			case *ast.IncDecStmt:
				add(x, "drop-incdec", func() { x.Tok = map[token.Token]token.Token{token.INC: token.DEC, token.DEC: token.INC}[x.Tok] })
			}
			return true
		})
		for _, p := range pts {
			if *list {
				fmt.Printf("%d %s:%d:%d %s\n", id, filepath.Base(p.file), p.pos.Line, p.pos.Column, p.op)
			}
			if *apply == id {
				p.do()
				out, err := os.Create(f)
				if err != nil {
					fmt.Fprintln(os.Stderr, err)
					os.Exit(1)
				}
				format.Node(out, fset, af)
				out.Close()
				fmt.Printf("applied %d %s:%d:%d %s\n", id, filepath.Base(p.file), p.pos.Line, p.pos.Column, p.op)
				return
			}
			id++
		}
	}
}
