#!/bin/sh
# Phase 1b: the files phase 1 left out (bucket.go, views.go, designdoc.go, collection+query.go, payload.go, queryable.go).
# The differential harness says little about them (it exercises the key-value API), so the classes are only
#   nobuild | killed-by-suite | passes-suite ; every mutant that passes the suite goes to the contracts (phase 2b).
export GOFLAGS=-mod=mod GOPROXY=off GOSUMDB=off GOTOOLCHAIN=local
OUT=/verif/mutation; mkdir -p $OUT
B=$(mktemp -d /tmp/mutbase.XXXXXX); git -C /repo archive HEAD | tar -x -C $B
/verif/bin/mutate -dir $B -list | grep -E " (views\.go|payload\.go|queryable\.go):" > $OUT/points_c.txt
one() {
  id=$1; desc=$(grep "^$id " $OUT/points_c.txt | cut -d' ' -f2-)
  W=$(mktemp -d /tmp/mut.XXXXXX); cp -r $B/. $W/
  /verif/bin/mutate -dir $W -apply $id >/dev/null 2>&1
  if ! (cd $W && go build ./... >/dev/null 2>&1); then echo "$id nobuild $desc"; rm -rf $W; return; fi
  if ! (cd $W && timeout 90 go test -vet=off -count=1 -timeout 60s ./... >/dev/null 2>&1); then echo "$id killed-by-suite $desc"; rm -rf $W; return; fi
  echo "$id passes-suite $desc"
  rm -rf $W
}
n=0
: > $OUT/phase1c.txt
for id in $(cut -d' ' -f1 $OUT/points_c.txt); do
  one $id >> $OUT/phase1c.txt &
  n=$((n+1)); if [ $((n % 8)) = 0 ]; then wait; fi
done
wait
rm -rf $B
cut -d' ' -f2 $OUT/phase1c.txt | sort | uniq -c
