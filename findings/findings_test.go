// Demonstrations of genuine defects found by the contracts, runnable against /repo with
//   cd /repo && go test -overlay <ov.json> -vet=off -count=1 -run 'TestFinding' .
// (see /verif/findings/run.sh). Each test FAILS on the tree before its "fix:" commit and PASSES after it.
package rosmar

import (
	"context"
	"database/sql"
	"strings"
	"sync"
	"sync/atomic"
	"testing"
	"time"

	sgbucket "github.com/couchbase/sg-bucket"
	"github.com/stretchr/testify/require"
)

func findingBucket(t *testing.T) (*Bucket, *Collection) {
	b, err := OpenBucket(InMemoryURL, "finding_"+t.Name(), CreateNew)
	require.NoError(t, err)
	t.Cleanup(func() { _ = b.CloseAndDelete(context.Background()) })
	return b, b.DefaultDataStore().(*Collection)
}

type findingRow struct {
	present   bool
	valueNull bool
	tombstone int
	rev       int64
	exp       int64
	isJSON    int
	cas       uint64
}

func findingReadRow(t *testing.T, c *Collection, key string) findingRow {
	var r findingRow
	var val []byte
	row := c.bucket.sqliteDB.QueryRow(`SELECT value, tombstone, revSeqNo, exp, isJSON, cas FROM documents WHERE collection=?1 AND key=?2`, c.id, key)
	err := row.Scan(&val, &r.tombstone, &r.rev, &r.exp, &r.isJSON, &r.cas)
	if err != nil {
		return r
	}
	r.present = true
	r.valueNull = val == nil
	return r
}

func findingFeed(t *testing.T, c *Collection) chan sgbucket.FeedEvent {
	events := make(chan sgbucket.FeedEvent, 100)
	term := make(chan bool)
	t.Cleanup(func() { close(term) })
	args := sgbucket.FeedArguments{ID: "f" + t.Name(), Backfill: sgbucket.FeedNoBackfill, Terminator: term}
	require.NoError(t, c.StartDCPFeed(context.Background(), args, func(e sgbucket.FeedEvent) bool { events <- e; return true }, nil))
	return events
}

func findingNext(t *testing.T, ch chan sgbucket.FeedEvent) *sgbucket.FeedEvent {
	select {
	case e := <-ch:
		return &e
	case <-time.After(500 * time.Millisecond):
		return nil
	}
}

// F1 [C05,C06,C17] Add over a tombstone leaves tombstone=1 and does not advance revSeqNo; a second Add then overwrites the live document.
func TestFindingF1AddOverTombstone(t *testing.T) {
	_, c := findingBucket(t)
	added, err := c.AddRaw("k", 0, []byte(`{"v":1}`))
	require.NoError(t, err)
	require.True(t, added)
	require.NoError(t, c.Delete("k"))
	before := findingReadRow(t, c, "k")
	added, err = c.AddRaw("k", 0, []byte(`{"v":2}`))
	require.NoError(t, err)
	require.True(t, added)
	r := findingReadRow(t, c, "k")
	require.Equal(t, 0, r.tombstone, "a live document must not be flagged as tombstone")
	require.Equal(t, before.rev+1, r.rev, "resurrection is one more mutation of the key")
	added, err = c.AddRaw("k", 0, []byte(`{"v":3}`))
	require.NoError(t, err)
	require.False(t, added, "Add must not overwrite a live document")
}

// F2 [C06,C08] a refused Add posts a mutation event carrying the rejected body.
func TestFindingF2RefusedAddPostsEvent(t *testing.T) {
	_, c := findingBucket(t)
	added, err := c.AddRaw("k", 0, []byte(`{"v":1}`))
	require.NoError(t, err)
	require.True(t, added)
	events := findingFeed(t, c)
	added, err = c.AddRaw("k", 0, []byte(`{"v":"rejected"}`))
	require.NoError(t, err)
	require.False(t, added)
	require.Nil(t, findingNext(t, events), "a refused Add must deliver nothing")
}

// F3 [C05,C06] Set over a tombstone leaves tombstone=1; Add then overwrites the live document.
func TestFindingF3SetOverTombstone(t *testing.T) {
	_, c := findingBucket(t)
	require.NoError(t, c.SetRaw("k", 0, nil, []byte(`{"v":1}`)))
	require.NoError(t, c.Delete("k"))
	require.NoError(t, c.SetRaw("k", 0, nil, []byte(`{"v":2}`)))
	require.Equal(t, 0, findingReadRow(t, c, "k").tombstone)
	added, err := c.AddRaw("k", 0, []byte(`{"v":3}`))
	require.NoError(t, err)
	require.False(t, added, "Add must not overwrite a live document")
}

// F4 [C05,C06] WriteCas keeps the tombstone flag out of step with the body (delete through Update; body onto a tombstone with its CAS).
func TestFindingF4WriteCasTombstoneFlag(t *testing.T) {
	_, c := findingBucket(t)
	require.NoError(t, c.SetRaw("k", 0, nil, []byte(`{"v":1}`)))
	_, err := c.Update("k", 0, func(current []byte) ([]byte, *uint32, bool, error) { return nil, nil, true, nil })
	require.NoError(t, err)
	r := findingReadRow(t, c, "k")
	require.True(t, r.valueNull)
	require.Equal(t, 1, r.tombstone, "a document deleted through Update is a tombstone")
	added, err := c.AddRaw("k", 0, []byte(`{"v":2}`))
	require.NoError(t, err)
	require.True(t, added, "Add must create a key that has no body")

	require.NoError(t, c.Delete("k"))
	r = findingReadRow(t, c, "k")
	_, err = c.WriteCas("k", 0, r.cas, []byte(`{"v":3}`), 0)
	require.NoError(t, err)
	require.Equal(t, 0, findingReadRow(t, c, "k").tombstone, "a body written onto a tombstone makes it live")
}

// F5 [C17] WriteCas with CAS 0 (or AddOnly) over a tombstone restarts the revision number at 1.
func TestFindingF5WriteCasResurrectionRev(t *testing.T) {
	_, c := findingBucket(t)
	require.NoError(t, c.SetRaw("k", 0, nil, []byte(`{"v":1}`)))
	require.NoError(t, c.Delete("k"))
	before := findingReadRow(t, c, "k")
	_, err := c.WriteCas("k", 0, 0, []byte(`{"v":2}`), 0)
	require.NoError(t, err)
	require.Equal(t, before.rev+1, findingReadRow(t, c, "k").rev)
}

// F6 [C11,C14,C17] Touch in one collection rewrites expiry and revision of the same key in another collection.
func TestFindingF6TouchCrossCollection(t *testing.T) {
	b, c1 := findingBucket(t)
	ds, err := b.NamedDataStore(sgbucket.DataStoreNameImpl{Scope: "s", Collection: "c2"})
	require.NoError(t, err)
	c2 := ds.(*Collection)
	require.NoError(t, c1.SetRaw("k", 0, nil, []byte(`{"v":1}`)))
	require.NoError(t, c2.SetRaw("k", 0, nil, []byte(`{"v":2}`)))
	before := findingReadRow(t, c2, "k")
	_, err = c1.Touch("k", 2000000000)
	require.NoError(t, err)
	after := findingReadRow(t, c2, "k")
	require.Equal(t, before, after, "a touch in one collection must not change another collection's document")
}

// F7 [C14] Touch does not arm the expiry timer: a touched-in expiry never fires.
func TestFindingF7TouchArmsTimer(t *testing.T) {
	b, c := findingBucket(t)
	require.NoError(t, c.SetRaw("k", 0, nil, []byte(`{"v":1}`)))
	exp := uint32(time.Now().Unix()) + 1000
	_, err := c.Touch("k", exp)
	require.NoError(t, err)
	b.expManager.mutex.Lock()
	next := b.expManager._getNext()
	b.expManager.mutex.Unlock()
	require.NotZero(t, next, "the expiry timer must be armed for the touched-in expiry")
	require.LessOrEqual(t, next, exp)
}

// F8 [C08] the Incr event says datatype raw although the stored document is JSON.
func TestFindingF8IncrEventDatatype(t *testing.T) {
	_, c := findingBucket(t)
	events := findingFeed(t, c)
	_, err := c.Incr("n", 1, 5, 0)
	require.NoError(t, err)
	e := findingNext(t, events)
	require.NotNil(t, e)
	require.Equal(t, 1, findingReadRow(t, c, "n").isJSON)
	require.NotZero(t, e.DataType&sgbucket.FeedDataTypeJSON, "event datatype must match the stored document")
}

// F9 [C01] GetExpiry of a deleted key answers 0, nil instead of reporting it missing.
func TestFindingF9GetExpiryTombstone(t *testing.T) {
	_, c := findingBucket(t)
	require.NoError(t, c.SetRaw("k", 0, nil, []byte(`{"v":1}`)))
	require.NoError(t, c.Delete("k"))
	_, err := c.GetExpiry(context.Background(), "k")
	require.Error(t, err, "a deleted key is missing for every read")
}

// F10 [C08] the Append event carries only the appended fragment, not the document's body.
func TestFindingF10AppendEventBody(t *testing.T) {
	_, c := findingBucket(t)
	require.NoError(t, c.SetRaw("k", 0, nil, []byte(`abc`)))
	_, cas, err := c.GetRaw("k")
	require.NoError(t, err)
	events := findingFeed(t, c)
	_, err = c.WriteCas("k", 0, cas, []byte(`def`), sgbucket.Append)
	require.NoError(t, err)
	e := findingNext(t, events)
	require.NotNil(t, e)
	require.Equal(t, "abcdef", string(e.Value), "the event must carry the body as stored")
}

// F11 [C08,C14] Set with PreserveExpiry posts an event carrying the argument's expiry, not the preserved one that was stored.
func TestFindingF11PreserveExpiryEvent(t *testing.T) {
	_, c := findingBucket(t)
	require.NoError(t, c.SetRaw("k", 2000000000, nil, []byte(`{"v":1}`)))
	events := findingFeed(t, c)
	require.NoError(t, c.SetRaw("k", 0, &sgbucket.UpsertOptions{PreserveExpiry: true}, []byte(`{"v":2}`)))
	e := findingNext(t, events)
	require.NotNil(t, e)
	require.Equal(t, int64(2000000000), findingReadRow(t, c, "k").exp)
	require.Equal(t, uint32(2000000000), e.Expiry, "the event must carry the expiry in force")
}

// F12 [C14,C08,C20] SetWithMeta stores a relative expiry un-converted and then panics after the commit ("expiry isn't absolute").
func TestFindingF12SetWithMetaRelativeExpiry(t *testing.T) {
	_, c := findingBucket(t)
	var panicked interface{}
	func() {
		defer func() { panicked = recover() }()
		err := c.SetWithMeta(context.Background(), "k", 0, 12345, 100, nil, []byte(`{"v":1}`), sgbucket.FeedDataTypeJSON)
		require.NoError(t, err)
	}()
	require.Nil(t, panicked, "SetWithMeta must not panic after committing")
	r := findingReadRow(t, c, "k")
	require.True(t, r.present)
	require.Greater(t, r.exp, int64(30*24*3600), "an offset expiry is stored as an absolute time")
}

// K1 (open, C12) SetWithMeta does not advance the collection's lastCas: the view index is not refreshed.
func TestFindingK1SetWithMetaViewStale(t *testing.T) {
	_, c := findingBucket(t)
	require.NoError(t, c.SetRaw("seed", 0, nil, []byte(`{"v":1}`)))
	before, err := c.getLastCas(c.db())
	require.NoError(t, err)
	require.NoError(t, c.SetWithMeta(context.Background(), "m", 0, before+1000, 0, nil, []byte(`{"v":2}`), sgbucket.FeedDataTypeJSON))
	after, err := c.getLastCas(c.db())
	require.NoError(t, err)
	require.GreaterOrEqual(t, after, before+1000, "the collection's high-water mark must cover every stored CAS")
}

// F13 [C09,C14] backfill events always carry Expiry 0 (the backfill query never reads the exp column).
func TestFindingF13BackfillExpiry(t *testing.T) {
	_, c := findingBucket(t)
	require.NoError(t, c.SetRaw("k", 2000000000, nil, []byte(`{"v":1}`)))
	events := make(chan sgbucket.FeedEvent, 10)
	args := sgbucket.FeedArguments{ID: "bf", Backfill: 0, Dump: true, DoneChan: make(chan struct{})}
	require.NoError(t, c.StartDCPFeed(context.Background(), args, func(e sgbucket.FeedEvent) bool { events <- e; return true }, nil))
	<-args.DoneChan
	close(events)
	found := false
	for e := range events {
		if e.Opcode == sgbucket.FeedOpMutation && string(e.Key) == "k" {
			found = true
			require.Equal(t, uint32(2000000000), e.Expiry, "a backfilled event describes the document exactly as a live event does")
		}
	}
	require.True(t, found)
}

// F14 [C11,C16,C20] dropping a collection sets the bucket's whole feed map to nil: feeds of other collections are forgotten and
// the next StartDCPFeed on that handle panics ("assignment to entry in nil map") while holding the bucket mutex.
func TestFindingF14DropCollectionKeepsFeedMap(t *testing.T) {
	b, c := findingBucket(t)
	events := findingFeed(t, c) // a live feed on the default collection
	name := sgbucket.DataStoreNameImpl{Scope: "s", Collection: "dropme"}
	_, err := b.NamedDataStore(name)
	require.NoError(t, err)
	require.NoError(t, b.DropDataStore(name))
	require.NoError(t, c.SetRaw("k", 0, nil, []byte(`{"v":1}`)))
	require.NotNil(t, findingNext(t, events), "dropping another collection must not stop this collection's feed")
	var panicked interface{}
	done := make(chan struct{})
	go func() {
		defer close(done)
		defer func() { panicked = recover() }()
		args := sgbucket.FeedArguments{ID: "again", Backfill: sgbucket.FeedNoBackfill, Terminator: make(chan bool)}
		_ = c.StartDCPFeed(context.Background(), args, func(e sgbucket.FeedEvent) bool { return true }, nil)
	}()
	select {
	case <-done:
	case <-time.After(3 * time.Second):
		t.Fatal("StartDCPFeed hung")
	}
	require.Nil(t, panicked)
}

// F15 [C16,C20] closing the last handle of an on-disk bucket only stops the feeds of collections that handle had opened.
func TestFindingF15LastCloseStopsAllFeeds(t *testing.T) {
	url := uriFromPath(t.TempDir() + "/b")
	h1, err := OpenBucket(url, "f15", CreateOrOpen)
	require.NoError(t, err)
	h2, err := OpenBucket(url, "f15", CreateOrOpen)
	require.NoError(t, err)
	done := make(chan struct{})
	args := sgbucket.FeedArguments{ID: "x", Backfill: sgbucket.FeedNoBackfill, DoneChan: done}
	require.NoError(t, h1.DefaultDataStore().(*Collection).StartDCPFeed(context.Background(), args, func(e sgbucket.FeedEvent) bool { return true }, nil))
	h1.Close(context.Background())
	h2.Close(context.Background()) // last handle: the store shuts down
	select {
	case <-done:
	case <-time.After(3 * time.Second):
		t.Fatal("the feed was not stopped when the store shut down")
	}
}

// F16 [C13] Close is not idempotent: closing one handle twice releases the store under another open handle.
func TestFindingF16DoubleClose(t *testing.T) {
	url := uriFromPath(t.TempDir() + "/b")
	h1, err := OpenBucket(url, "f16", CreateOrOpen)
	require.NoError(t, err)
	h2, err := OpenBucket(url, "f16", CreateOrOpen)
	require.NoError(t, err)
	defer h2.Close(context.Background())
	h1.Close(context.Background())
	h1.Close(context.Background())
	require.NoError(t, h2.DefaultDataStore().SetRaw("k", 0, nil, []byte(`{"v":1}`)), "the other handle must keep working")
}

// F17 [C05,C06,C08] an xattr-only write to a missing or deleted key leaves a body-less row flagged tombstone=0: the feed
// announces a mutation for a document without a body and a following Add is refused.
func TestFindingF17XattrOnlyWriteOnMissingKey(t *testing.T) {
	_, c := findingBucket(t)
	events := findingFeed(t, c)
	_, err := c.SetXattrs(context.Background(), "k", map[string][]byte{"_x": []byte(`{"a":1}`)})
	require.NoError(t, err)
	r := findingReadRow(t, c, "k")
	require.True(t, r.present)
	require.True(t, r.valueNull)
	require.Equal(t, 1, r.tombstone, "a document without a body is a tombstone")
	e := findingNext(t, events)
	require.NotNil(t, e)
	require.Equal(t, sgbucket.FeedOpDeletion, e.Opcode, "deletion opcode iff the result has no body")
	added, err := c.AddRaw("k", 0, []byte(`{"v":1}`))
	require.NoError(t, err)
	require.True(t, added, "Add must create a key that has no body")
}

// F18 [C05,C06,C09,C14] DeleteWithXattrs nulls the body but leaves tombstone=0, isJSON and the expiry: Add is refused afterwards
// and the backfill announces a mutation.
func TestFindingF18DeleteWithXattrs(t *testing.T) {
	_, c := findingBucket(t)
	require.NoError(t, c.SetRaw("k", 2000000000, nil, []byte(`{"v":1}`)))
	_, err := c.SetXattrs(context.Background(), "k", map[string][]byte{"_x": []byte(`{"a":1}`), "u": []byte(`{"b":2}`)})
	require.NoError(t, err)
	require.NoError(t, c.DeleteWithXattrs(context.Background(), "k", []string{"u"}))
	r := findingReadRow(t, c, "k")
	require.True(t, r.valueNull)
	require.Equal(t, 1, r.tombstone, "a document without a body is a tombstone")
	require.Equal(t, int64(0), r.exp, "expiry is cleared by delete")
	added, err := c.AddRaw("k", 0, []byte(`{"v":2}`))
	require.NoError(t, err)
	require.True(t, added, "Add must create a key that has no body")
}

// F19 [C07,C08,C17,C20] DeleteSubDocPaths commits, then panics ("event missing revSeqNo"); the revision number is not advanced.
func TestFindingF19DeleteSubDocPaths(t *testing.T) {
	_, c := findingBucket(t)
	require.NoError(t, c.SetRaw("k", 0, nil, []byte(`{"v":1}`)))
	_, err := c.SetXattrs(context.Background(), "k", map[string][]byte{"u": []byte(`{"b":2}`)})
	require.NoError(t, err)
	before := findingReadRow(t, c, "k")
	var panicked interface{}
	func() {
		defer func() { panicked = recover() }()
		require.NoError(t, c.DeleteSubDocPaths(context.Background(), "k", "u"))
	}()
	require.Nil(t, panicked, "DeleteSubDocPaths must not panic after committing")
	require.Equal(t, before.rev+1, findingReadRow(t, c, "k").rev)
}

// F20 [C08] the DeleteSubDocPaths event says datatype raw and expiry 0 whatever the stored document says.
func TestFindingF20DeleteSubDocPathsEvent(t *testing.T) {
	_, c := findingBucket(t)
	require.NoError(t, c.SetRaw("k", 2000000000, nil, []byte(`{"v":1}`)))
	require.NoError(t, c.Set("j", 2000000000, nil, map[string]any{"v": 1}))
	_, err := c.SetXattrs(context.Background(), "j", map[string][]byte{"u": []byte(`{"b":2}`), "w": []byte(`{"c":3}`)})
	require.NoError(t, err)
	events := findingFeed(t, c)
	require.NoError(t, c.DeleteSubDocPaths(context.Background(), "j", "u"))
	e := findingNext(t, events)
	require.NotNil(t, e)
	require.Equal(t, uint32(2000000000), e.Expiry, "the event carries the document's expiry")
	require.NotZero(t, e.DataType&sgbucket.FeedDataTypeJSON, "the event carries the document's datatype")
}

// F21 [C10,C13] A failed OpenBucket of an EXISTING on-disk bucket deleted the bucket's files: the clean-up that removes
// a half-created bucket ran for every error after sql.Open, including a transient "database is locked".
func TestFindingF21FailedReopenKeepsBucket(t *testing.T) {
	ctx := context.Background()
	dir := testBucketPath(t)
	url := uriFromPath(dir)
	b, err := OpenBucket(url, "f21", CreateNew)
	require.NoError(t, err)
	require.NoError(t, b.DefaultDataStore().(*Collection).SetRaw("k", 0, nil, []byte(`{"v":1}`)))
	b.Close(ctx)

	// another connection (think: another process) holds the write lock, so that the reopening call's first write fails
	// with "database is locked" once the busy timeout (10 s) has passed
	raw, err := sql.Open("sqlite3_for_rosmar", "file:"+dir+"/"+kDBFilename+"?_txlock=immediate&_busy_timeout=0")
	require.NoError(t, err)
	tx, err := raw.Begin()
	require.NoError(t, err)
	_, err = tx.Exec(`UPDATE bucket SET name=name`)
	require.NoError(t, err)

	_, err = OpenBucket(url, "f21", ReOpenExisting)
	require.Error(t, err, "the open is expected to fail while the database is locked")
	require.NoError(t, tx.Rollback())
	require.NoError(t, raw.Close())

	b2, err := OpenBucket(url, "f21", ReOpenExisting)
	require.NoError(t, err, "a failed open must not delete an existing bucket")
	defer func() { _ = b2.CloseAndDelete(ctx) }()
	val, _, err := b2.DefaultDataStore().(*Collection).GetRaw("k")
	require.NoError(t, err)
	require.Equal(t, `{"v":1}`, string(val))
}

// F22 [C20] CloseAndDelete takes the bucket lock and then (in _closeSqliteDB -> expiryManager.stop) the expiry lock; the
// expiry timer's callback takes the expiry lock and then (in expireDocuments) the bucket lock. When the timer fires
// while the bucket is being deleted the two wait for each other for ever.
func TestFindingF22CloseAndDeleteWhileExpiryRuns(t *testing.T) {
	b, err := OpenBucket(InMemoryURL, "finding_f22", CreateNew)
	require.NoError(t, err)
	c := b.DefaultDataStore().(*Collection)

	started := make(chan struct{})
	proceed := make(chan struct{})
	oldCallback, oldLevel := LoggingCallback, GetLogLevel()
	defer func() { LoggingCallback = oldCallback; SetLogLevel(oldLevel) }()
	var once sync.Once
	LoggingCallback = func(level LogLevel, f string, args ...any) {
		if strings.HasPrefix(f, "EXP: Running scheduled expiration") {
			once.Do(func() {
				close(started) // the timer callback is running (it holds the expiry manager's lock)
				<-proceed
			})
		}
	}
	SetLogLevel(LevelDebug)

	_, err = c.AddRaw("k", 1, []byte(`{"v":1}`)) // expires in one second
	require.NoError(t, err)
	select {
	case <-started:
	case <-time.After(10 * time.Second):
		t.Fatal("the expiry timer did not fire")
	}

	done := make(chan error, 1)
	go func() { done <- b.CloseAndDelete(context.Background()) }()
	// give CloseAndDelete time to get as far as it can while the timer callback is paused
	deadline := time.Now().Add(500 * time.Millisecond)
	for time.Now().Before(deadline) {
		if b.mutex.TryLock() {
			b.mutex.Unlock()
			time.Sleep(10 * time.Millisecond)
		} else {
			break // CloseAndDelete holds the bucket lock
		}
	}
	close(proceed)
	select {
	case <-done:
	case <-time.After(5 * time.Second):
		t.Fatal("deadlock: CloseAndDelete and the expiry timer callback wait for each other's lock")
	}
}

// F23 [C07] A macro-expansion path that names only the xattr ("_sync" instead of "_sync.cas") made WriteWithXattrs panic
// inside its transaction (slice bounds out of range in upsertSubdocValue); the transaction was never ended, so every
// later write to the bucket blocked for ever. "None of it" has to be an error, not a panic that wedges the store.
func TestFindingF23MacroPathWithoutProperty(t *testing.T) {
	_, c := findingBucket(t)
	opts := &sgbucket.MutateInOptions{MacroExpansion: []sgbucket.MacroExpansionSpec{{Path: "_sync", Type: sgbucket.MacroCas}}}
	var panicked any
	var err error
	func() {
		defer func() { panicked = recover() }()
		_, err = c.WriteWithXattrs(context.Background(), "k", 0, 0, []byte(`{"v":1}`), map[string][]byte{"_sync": []byte(`{"a":1}`)}, nil, opts)
	}()
	require.Nil(t, panicked, "a malformed macro path must be refused, not panic")
	require.Error(t, err)
	require.False(t, findingReadRow(t, c, "k").present, "nothing may have been written")
	done := make(chan error, 1)
	go func() { _, e := c.AddRaw("other", 0, []byte(`{"x":1}`)); done <- e }()
	select {
	case e := <-done:
		require.NoError(t, e)
	case <-time.After(3 * time.Second):
		t.Fatal("a later write hangs: the failed call left its transaction open")
	}
}

// F24 [C19] Bodies and xattrs are stored as BLOBs, and SQLite (3.45+) reads a BLOB argument of its JSON operators as
// JSONB: an 8-byte body such as {"n":10} happens to parse as JSONB, so body->>'n' is NULL in a query although the
// key-value API returns 10. The query's view of a document must equal its key-value read-back.
func TestFindingF24QuerySeesJSONBodyAsText(t *testing.T) {
	_, c := findingBucket(t)
	require.NoError(t, c.SetRaw("d7", 0, nil, []byte(`{"n":1}`)))
	require.NoError(t, c.SetRaw("d8", 0, nil, []byte(`{"n":10}`)))
	require.NoError(t, c.SetRaw("d9", 0, nil, []byte(`{"n":100}`)))
	it, err := c.Query(sgbucket.SQLiteLanguage, `SELECT id, body->>'n' AS n FROM $_keyspace ORDER BY id`, nil, sgbucket.RequestPlus, true)
	require.NoError(t, err)
	var rows []string
	for {
		row := it.NextBytes()
		if row == nil {
			break
		}
		rows = append(rows, string(row))
	}
	require.NoError(t, it.Close())
	require.Equal(t, []string{`{"id":d7,"n":1}`, `{"id":d8,"n":10}`, `{"id":d9,"n":100}`}, rows)
}

// F25 [C09,C15] StartDCPFeed read the backfill, and only afterwards (in a separate critical section) registered the feed for
// live events. A write that committed and posted its event in between was in neither: the feed never saw it. The write is
// placed in the window deterministically through the logging callback ("... ended backfill" is logged right there); it
// runs on its own goroutine so that a StartDCPFeed that keeps the bucket locked there simply makes it wait.
func TestFindingF25WriteWhileFeedStartsIsDelivered(t *testing.T) {
	_, c := findingBucket(t)
	_, err := c.AddRaw("before", 0, []byte(`{"v":1}`))
	require.NoError(t, err)

	oldCallback, oldLevel := LoggingCallback, GetLogLevel()
	defer func() { LoggingCallback = oldCallback; SetLogLevel(oldLevel) }()
	var once sync.Once
	written := make(chan error, 1)
	LoggingCallback = func(level LogLevel, f string, args ...any) {
		if strings.HasSuffix(f, "ended backfill") {
			once.Do(func() {
				done := make(chan struct{})
				go func() {
					_, err := c.AddRaw("during", 0, []byte(`{"v":2}`))
					written <- err
					close(done)
				}()
				select { // let the write finish if it can
				case <-done:
				case <-time.After(300 * time.Millisecond):
				}
			})
		}
	}
	SetLogLevel(LevelDebug)

	events := make(chan sgbucket.FeedEvent, 100)
	term := make(chan bool)
	defer close(term)
	args := sgbucket.FeedArguments{ID: "f25", Backfill: 0, Terminator: term}
	require.NoError(t, c.StartDCPFeed(context.Background(), args, func(e sgbucket.FeedEvent) bool { events <- e; return true }, nil))
	SetLogLevel(oldLevel)
	LoggingCallback = oldCallback
	select {
	case err := <-written:
		require.NoError(t, err)
	case <-time.After(5 * time.Second):
		t.Fatal("the write made while the feed was starting never returned")
	}
	_, err = c.AddRaw("after", 0, []byte(`{"v":3}`))
	require.NoError(t, err)

	seen := map[string]bool{}
	for !seen["after"] {
		e := findingNext(t, events)
		require.NotNil(t, e, "feed stalled; saw %v", seen)
		if e.Opcode == sgbucket.FeedOpMutation {
			seen[string(e.Key)] = true
		}
	}
	require.True(t, seen["before"], "backfill must deliver the document written before the feed started")
	require.True(t, seen["during"], "a write that commits while the feed is starting must be delivered by backfill or live")
}

// K2 [C08] Writers commit in CAS order while they hold the bucket mutex, but each posts its event after releasing it, so
// a later write can post first and a feed receives CAS values out of order. The first writer is held between its commit
// and its post through the logging callback ("DCP: ..." is logged right there) while a second writer runs to completion.
func TestFindingK2EventsPostedOutOfCasOrder(t *testing.T) {
	_, c := findingBucket(t)
	events := findingFeed(t, c)

	oldCallback, oldLevel := LoggingCallback, GetLogLevel()
	defer func() { LoggingCallback = oldCallback; SetLogLevel(oldLevel) }()
	var first atomic.Bool
	LoggingCallback = func(level LogLevel, f string, args ...any) {
		if strings.HasPrefix(f, "DCP: ") && first.CompareAndSwap(false, true) {
			func() {
				// the first writer has committed and is about to post: let a second writer go all the way
				done := make(chan struct{})
				go func() {
					defer close(done)
					_, _ = c.AddRaw("second", 0, []byte(`{"v":2}`))
				}()
				select {
				case <-done:
				case <-time.After(500 * time.Millisecond): // a writer that must wait for the first one's post is fine too
				}
			}()
		}
	}
	SetLogLevel(LevelInfo)
	_, err := c.AddRaw("first", 0, []byte(`{"v":1}`))
	require.NoError(t, err)
	SetLogLevel(oldLevel)
	LoggingCallback = oldCallback

	var cas []uint64
	var keys []string
	for len(cas) < 2 {
		e := findingNext(t, events)
		require.NotNil(t, e, "feed stalled after %v", keys)
		cas = append(cas, e.Cas)
		keys = append(keys, string(e.Key))
	}
	require.Less(t, cas[0], cas[1], "events reached the feed out of CAS order: %v", keys)
}

// F26 [C14,C01] The expiry reaper collected the keys that were due and then deleted each one unconditionally, in a later
// transaction of its own. A document rewritten in between (here: without expiry, by a client that got success back) was
// deleted all the same, although the expiry in force is the one of the most recent write. The rewrite is placed in the
// window through the logging callback: the deletion of the first due key logs its event ("DCP: ...") before the reaper
// turns to the second key.
func TestFindingF26ReaperSparesRewrittenDocument(t *testing.T) {
	_, c := findingBucket(t)
	oldCallback, oldLevel := LoggingCallback, GetLogLevel()
	defer func() { LoggingCallback = oldCallback; SetLogLevel(oldLevel) }()

	var armed, fired atomic.Bool
	var other atomic.Value
	LoggingCallback = func(level LogLevel, f string, args ...any) {
		if armed.Load() && strings.HasPrefix(f, "DCP: ") && len(args) >= 3 && fired.CompareAndSwap(false, true) {
			key, _ := args[2].(string)
			o := "k1"
			if key == "k1" {
				o = "k2"
			}
			other.Store(o)
			// the reaper has tombstoned `key` and holds no lock; a client now rewrites the other due document
			_ = c.SetRaw(o, 0, nil, []byte(`{"v":"rewritten"}`))
		}
	}
	SetLogLevel(LevelInfo)
	_, err := c.AddRaw("k1", 1, []byte(`{"v":1}`)) // both expire in one second
	require.NoError(t, err)
	_, err = c.AddRaw("k2", 1, []byte(`{"v":2}`))
	require.NoError(t, err)
	armed.Store(true)

	deadline := time.Now().Add(10 * time.Second)
	for !fired.Load() && time.Now().Before(deadline) {
		time.Sleep(20 * time.Millisecond)
	}
	require.True(t, fired.Load(), "the expiry pass never ran")
	time.Sleep(500 * time.Millisecond) // let the pass finish
	SetLogLevel(oldLevel)
	LoggingCallback = oldCallback

	o := other.Load().(string)
	val, _, err := c.GetRaw(o)
	require.NoError(t, err, "the document rewritten (without expiry) after it fell due was deleted by the expiry pass")
	require.Equal(t, `{"v":"rewritten"}`, string(val))
}
