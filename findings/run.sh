#!/bin/sh
# usage: run.sh [repo-dir] [test-regex]   -- runs the finding demonstrations against a tree without writing to it
REPO=${1:-/repo}; RE=${2:-TestFinding}
export GOFLAGS=-mod=mod GOPROXY=off GOSUMDB=off GOTOOLCHAIN=local
T=$(mktemp -d); trap 'rm -rf $T' EXIT
printf '{"Replace":{"%s/zz_findings_test.go":"/verif/findings/findings_test.go"}}' "$REPO" > $T/ov.json
cd $REPO && go test -overlay $T/ov.json -vet=off -count=1 -timeout 120s -run "$RE" . 2>&1
